"""Replay / failing-input search for C13 on the real AppCfgMgr (temp treadmill root; `appcfg.configure.configure`
and the supervisor control call are stubbed: configure creates apps/<unique name>/data and returns the container
directory exactly as the real one does, named by the real `appcfg.eventfile_unique_name`).

A case is a list of events:
  ['place', X]      the event manager writes cache/X            -> _on_created
  ['evict', X]      the event manager removes cache/X           -> _on_deleted
  ['finish', X]     the container of running/X exits: exitinfo is written and the monitor moves running/X to
                    cleanup/X (what monitor.MonitorContainerCleanup.execute does: fs.replace(running, cleanup))
  ['cleaned', k]    the cleanup service is done with the k-th cleanup link (sorted): link and container removed
  ['restart']       a new AppCfgMgr object; ready file present -> _first_sync
  ['resync']        the ready file flips: _on_deleted(.ready), _on_created(.ready)
  ['unready'] / ['ready']   the two halves of a flip, with other events in between

Oracle (from the statement, independent of the contracts):
  O1 after every event a container directory is the target of at most one link of running/ and cleanup/;
  O2 a container that was running before a synchronisation, whose cache entry still names it, is still running after;
  O3 a container that carries exitinfo / aborted / oom is not given a running link by a synchronisation;
  O4 after a synchronisation every container without a cache entry naming it has no running link;
  O5 after a synchronisation every cache entry whose container is not finished has a running link to its container.
"""
import json
import logging
import os
import random
import shutil
import sys
import tempfile
import time

logging.disable(logging.CRITICAL)

from treadmill import appcfg, appcfgmgr, fs, supervisor      # noqa: E402
from treadmill.appcfg import configure as app_cfg            # noqa: E402

INSTANCES = ['proid.web#0000000001', 'proid.web#0000000002', 'proid.db-x#0000000007']


def _stub_configure(tm_env, event, runtime, runtime_param=None):
    uniq = appcfg.eventfile_unique_name(event)
    cdir = os.path.join(tm_env.apps_dir, uniq)
    fs.mkdir_safe(os.path.join(cdir, 'data'))
    return cdir


class World:
    def __init__(self):
        self.root = tempfile.mkdtemp(prefix='c13_', dir=os.environ.get('TMPDIR', '/tmp'))
        app_cfg.configure = _stub_configure
        supervisor.control_svscan = lambda *a, **k: None
        self.mgr = appcfgmgr.AppCfgMgr(self.root, 'linux')
        env = self.mgr.tm_env
        for d in (env.apps_dir, env.cache_dir, env.running_dir, env.cleanup_dir):
            fs.mkdir_safe(d)
        self.env = env
        self.errs = []

    def close(self):
        shutil.rmtree(self.root, ignore_errors=True)

    # ---- observation
    def links(self):
        out = []
        for d in (self.env.running_dir, self.env.cleanup_dir):
            for n in sorted(os.listdir(d)):
                p = os.path.join(d, n)
                if os.path.islink(p):
                    out.append((os.path.basename(d), n, os.path.basename(os.readlink(p))))
        return out

    def cached(self):
        out = {}
        for n in os.listdir(self.env.cache_dir):
            if not n.startswith('.'):
                out[n] = appcfg.eventfile_unique_name(os.path.join(self.env.cache_dir, n))
        return out

    def finished(self, container):
        data = os.path.join(self.env.apps_dir, container, 'data')
        return any(os.path.exists(os.path.join(data, f)) for f in ('exitinfo', 'aborted', 'oom'))

    def check_links(self, what):
        seen = {}
        for d, n, c in self.links():
            seen.setdefault(c, []).append('%s/%s' % (d, n))
        for c, ls in seen.items():
            if len(ls) > 1:
                self.errs.append('O1 after %s: container %s is referenced by %s' % (what, c, ls))

    def sync_checked(self, what, fn):
        run_before = {n: c for d, n, c in self.links() if d == 'running'}
        cached = self.cached()
        fin_before = {c for c in os.listdir(self.env.apps_dir) if self.finished(c)}
        fn()
        run_after = {n: c for d, n, c in self.links() if d == 'running'}
        for n, c in run_before.items():
            if cached.get(n) == c and run_after.get(n) != c:
                self.errs.append('O2 %s: %s was running as %s with an unchanged cache entry and is not any more'
                                 % (what, n, c))
        for n, c in run_after.items():
            if c in fin_before and run_before.get(n) != c:
                self.errs.append('O3 %s: finished container %s was started again' % (what, c))
            if cached.get(n) != c:
                self.errs.append('O4 %s: running/%s -> %s has no cache entry naming it' % (what, n, c))
        for n, c in cached.items():
            if c not in fin_before and run_after.get(n) != c and n in self.cached():
                self.errs.append('O5 %s: cache entry %s (%s) is not running' % (what, n, c))

    # ---- events
    def ev(self, e):
        env, mgr = self.env, self.mgr
        kind = e[0]
        if kind == 'place':
            p = os.path.join(env.cache_dir, e[1])
            if os.path.exists(p):
                return False
            with open(p, 'w') as f:
                f.write('manifest')
            mgr._on_created(p)
        elif kind == 'evict':
            p = os.path.join(env.cache_dir, e[1])
            if not os.path.exists(p):
                return False
            os.unlink(p)
            mgr._on_deleted(p)
        elif kind in ('place_q', 'evict_q'):
            # the event manager changes the cache while the manager is not running (no handler is called)
            p = os.path.join(env.cache_dir, e[1])
            if kind == 'evict_q':
                if not os.path.exists(p):
                    return False
                os.unlink(p)
            else:
                if os.path.exists(p):
                    return False
                with open(p, 'w') as f:
                    f.write('manifest')
        elif kind == 'finish':
            run = os.path.join(env.running_dir, e[1])
            if not os.path.islink(run):
                return False
            with open(os.path.join(os.readlink(run), 'data', 'exitinfo'), 'w') as f:
                f.write('{}')
            try:
                fs.replace(run, os.path.join(env.cleanup_dir, e[1]))
            except OSError:
                pass
        elif kind == 'cleaned':
            ls = sorted(os.listdir(env.cleanup_dir))
            if not ls:
                return False
            link = os.path.join(env.cleanup_dir, ls[e[1] % len(ls)])
            target = os.readlink(link)
            os.unlink(link)
            shutil.rmtree(target, ignore_errors=True)
        elif kind == 'restart':
            self.mgr = appcfgmgr.AppCfgMgr(self.root, 'linux')
            ready = os.path.join(env.cache_dir, '.ready')
            if os.path.exists(ready):
                self.sync_checked('restart', lambda: self.mgr._on_created(ready))
        elif kind == 'unready':
            ready = os.path.join(env.cache_dir, '.ready')
            if not os.path.exists(ready):
                return False
            os.unlink(ready)
            mgr._on_deleted(ready)
        elif kind == 'ready':
            ready = os.path.join(env.cache_dir, '.ready')
            if os.path.exists(ready):
                return False
            with open(ready, 'w'):
                pass
            self.sync_checked('ready', lambda: mgr._on_created(ready))
        elif kind == 'resync':
            self.ev(['unready'])
            return self.ev(['ready'])
        else:
            raise ValueError(kind)
        self.check_links(json.dumps(e))
        return True


def run(case):
    w = World()
    try:
        w.ev(['ready'])
        for e in case['events']:
            try:
                w.ev(e)
            except Exception as err:      # noqa: an event handler that raises leaves the state as it is
                w.errs.append('handler raised at %s: %r' % (json.dumps(e), err))
            if w.errs:
                break
        return w.errs
    finally:
        w.close()


def rand_case(rng):
    evs = []
    for _ in range(rng.randint(2, 9)):
        k = rng.random()
        x = rng.choice(INSTANCES[:2] if rng.random() < 0.8 else INSTANCES)
        if rng.random() < 0.08:
            # an instance evicted and placed again (a new generation) while the manager is inactive or down
            if rng.random() < 0.5:
                evs += [['unready'], ['evict', x], ['place', x], ['ready']]
            else:
                evs += [['evict_q', x], ['place_q', x], ['restart']]
            continue
        if k < 0.3:
            evs.append(['place', x])
        elif k < 0.5:
            evs.append(['evict', x])
        elif k < 0.62:
            evs.append(['finish', x])
        elif k < 0.72:
            evs.append(['cleaned', rng.randint(0, 3)])
        elif k < 0.84:
            evs.append(['restart'])
        elif k < 0.92:
            evs.append(['resync'])
        elif k < 0.96:
            evs.append(['unready'])
        else:
            evs.append(['ready'])
    return {'events': evs}


def main(argv):
    if argv[0] == '--input':
        case = json.loads(argv[1])
        errs = run(case)
        print('input:', json.dumps(case))
        print('result:', errs or 'agrees with the property')
        return 1 if errs else 0
    rng = random.Random(int(os.environ.get('VERIF_SEED', '0')))
    if argv[0] == '--bounded':
        n_max, budget = int(argv[1]), 1e9
    else:
        n_max, budget = 10 ** 9, float(os.environ.get('VERIF_REPLAY_BUDGET', '30'))
    known = json.loads(os.environ.get('VERIF_KNOWN_TAGS', '[]'))
    t0 = time.time()
    n = 0
    while n < n_max and time.time() - t0 < budget:
        n += 1
        case = rand_case(rng)
        errs = run(case)
        errs = [e for e in errs if e.split(' ')[0] not in known]
        if errs:
            case['why'] = errs[:3]
            print('FAILING-INPUT ' + json.dumps(case))
            return 0
    print('searched %d cases, none fails' % n)
    return 0


if __name__ == '__main__':
    sys.exit(main(sys.argv[1:]))
