"""Replay / failing-history search for the scheduler properties against the real treadmill.scheduler.

Runs under /venv/bin/python with PYTHONPATH=<repo>/lib/python.  A failed obligation of the
deductive check is a statement about all states; this harness looks for a concrete history of
cell events + cycles on which the *property statement* itself (evaluated by the oracles below,
independent of the contracts) is false on the real code.
  --search <obligation>   VERIF_PROP=<id> selects the oracle; bounded random search (VERIF_SEED)
  --input <json>          re-run one recorded history; exit 1 if the oracle still fails
"""
import json
import logging
import os
import random
import sys
import time

import numpy as np

from treadmill import scheduler as S

S.DIMENSION_COUNT = 3
logging.disable(logging.CRITICAL)


class Clock:
    def __init__(self):
        self.now = 1000000.0

    def time(self):
        return self.now


CLOCK = Clock()


class _FakeTime:
    """Stands in for the `time` module inside treadmill.scheduler only."""
    mktime = staticmethod(time.mktime)

    @staticmethod
    def time():
        CLOCK.now += 0.001       # strictly increasing: distinct global_order per instance
        return CLOCK.now


S.time = _FakeTime


def build(hist):
    """Interpret a history (list of ops) on a fresh cell; returns (cell, log of violations)."""
    CLOCK.now = 1000000.0
    del C07_ERRS[:]
    build.removed = {}
    cell = S.Cell('top')
    racks = {}
    servers = {}
    apps = {}
    out = []
    for op in hist:
        k = op[0]
        if k == 'rack':
            racks[op[1]] = S.Bucket(op[1], traits=0, level='rack')
            cell.add_node(racks[op[1]])
        elif k == 'server':
            _, name, rack, cap, traits, label = op
            srv = S.Server(name, cap, valid_until=CLOCK.now + 100000, traits=traits, label=label)
            servers[name] = srv
            racks[rack].add_node(srv)
        elif k == 'igroup':
            cell.configure_identity_group(op[1], op[2])
        elif k == 'alloc':
            _, part, name, reserved, rank, maxutil, traits = op
            a = S.Allocation(reserved, rank=rank, traits=traits, max_utilization=maxutil)
            cell.partitions[part].allocation.add_sub_alloc(name, a)
        elif k == 'app':
            _, name, part, alloc, prio, demand, aff, limits, igroup, retention, lease, traits = op
            app = S.Application(name, prio, demand, aff, affinity_limits=limits, identity_group=igroup,
                                data_retention_timeout=retention, lease=lease, traits=traits)
            apps[name] = app
            target = cell.partitions[part].allocation
            if alloc:
                target = target.get_sub_alloc(alloc)
            cell.add_app(target, app)
        elif k == 'move':
            if op[1] in apps:
                target = cell.partitions[op[2]].allocation
                if op[3]:
                    target = target.get_sub_alloc(op[3])
                cell.add_app(target, apps[op[1]])
        elif k == 'rmapp':
            cell.remove_app(op[1])
            apps.pop(op[1], None)
        elif k == 'state':
            servers[op[1]].state = S.State(op[2])
        elif k == 'blacklist':
            if op[1] in apps:
                apps[op[1]].blacklisted = op[2]
        elif k == 'tick':
            CLOCK.now += op[1]
        elif k == 'rmserver':
            # what Loader.remove_server does to the tree (the server may come back with 'readd')
            srv = servers.get(op[1])
            if srv is not None and srv.parent is not None:
                removed = getattr(build, 'removed', {})
                removed[op[1]] = srv.parent
                build.removed = removed
                srv.remove_all()
                srv.parent.remove_node(srv)
        elif k == 'readd':
            srv = servers.get(op[1])
            par = getattr(build, 'removed', {}).pop(op[1], None)
            if srv is not None and par is not None and srv.parent is None:
                par.add_node(srv)
        elif k == 'reset_children':
            kids = list(cell.children_iter())
            cell.reset_children()
            for kid in kids:
                cell.add_node(kid)
        elif k == 'schedule':
            before = {n: a.server for n, a in cell.apps.items()}
            states = {n: s.state for n, s in cell.members().items()}
            since = {n: s.get_state()[1] for n, s in cell.members().items()}
            check.since = since
            try:
                cell.schedule()
            except Exception as ex:   # noqa
                out.append('cycle raised %r' % (ex,))
                break
            out += [e for e in check(cell, before, states) if os.environ.get('VERIF_ONLY', '') in e]
            if out:
                break
    return cell, out


PROP = os.environ.get('VERIF_PROP', 'C01')

# C07 is a relation between the start and the end of one walk of a queue: observed by wrapping the real
# Cell._find_placements (the queue is not visible from outside Cell.schedule)
C07_ERRS = []
_REAL_FIND = S.Cell._find_placements


def _observed_find(self, queue, servers):
    queue = list(queue)
    before = [(a, a.server) for a in queue]
    states = {n: s_.state for n, s_ in servers.items()}
    _REAL_FIND(self, queue, servers)
    gained = [j for j, (a, sv) in enumerate(before) if a.server is not None and a.server != sv]
    for j, (a, sv) in enumerate(before):
        if (sv is not None and sv in servers and states[sv] is S.State.up and not a.blacklisted and
                a.final_rank != S._UNPLACED_RANK and a.server != sv and not any(g < j for g in gained)):
            C07_ERRS.append('%s (position %d) was on up server %s and is now on %s although nobody ahead of it gained '
                            'a placement' % (a.name, j, sv, a.server))


if PROP == 'C07':
    S.Cell._find_placements = _observed_find


def check(cell, before, states):
    errs = []
    members = cell.members()
    if PROP == 'C01':
        for name, srv in members.items():
            used = np.zeros(3)
            for an, a in srv.apps.items():
                used = used + a.demand
                if a.server != name or cell.apps.get(an) is not a:
                    errs.append('views disagree: %s lists %s, instance says %s' % (name, an, a.server))
            if (used > srv.init_capacity + 1e-9).any():
                errs.append('oversubscribed %s: %s > %s' % (name, used, srv.init_capacity))
            if not np.allclose(srv.free_capacity, srv.init_capacity - used):
                errs.append('free capacity of %s is %s, capacity-minus-placed is %s'
                            % (name, srv.free_capacity, srv.init_capacity - used))
        for an, a in cell.apps.items():
            if a.server is not None and (a.server not in members or members[a.server].apps.get(an) is not a):
                errs.append('instance %s names %s which does not list it' % (an, a.server))
    elif PROP == 'C05':
        held = {}
        for an, a in cell.apps.items():
            g = a.identity_group_ref
            if g is None:
                continue
            if a.identity is not None:
                if a.identity >= g.count:
                    errs.append('%s holds identity %s >= count %s' % (an, a.identity, g.count))
                key = (id(g), a.identity)
                if key in held:
                    errs.append('%s and %s both hold identity %s' % (held[key], an, a.identity))
                held[key] = an
                if a.server is None:
                    errs.append('%s is not placed but holds identity %s' % (an, a.identity))
                if a.identity in g.available:
                    errs.append('identity %s held by %s is also available' % (a.identity, an))
            elif a.server is not None:
                errs.append('%s is placed without identity' % an)
    elif PROP == 'C07':
        errs += C07_ERRS
        del C07_ERRS[:]
    elif PROP == 'C04':
        def walk(node):
            if isinstance(node, S.Server):
                cnt = {}
                for a in node.apps.values():
                    cnt[a.affinity.name] = cnt.get(a.affinity.name, 0) + 1
                lim = {a.affinity.name: a.affinity.limits for a in node.apps.values()}
            else:
                cnt, lim = {}, {}
                for c in node.children_iter():
                    c2, l2 = walk(c)
                    for k2, v in c2.items():
                        cnt[k2] = cnt.get(k2, 0) + v
                    lim.update(l2)
            for aff, n in cnt.items():
                if node.affinity_counters[aff] != n:
                    errs.append('%s counter for %s is %s, true count %s' % (node.name, aff, node.affinity_counters[aff], n))
                if n > lim[aff][node.level]:
                    errs.append('%s has %s instances of %s, limit %s' % (node.name, n, aff, lim[aff][node.level]))
            for aff, v in node.affinity_counters.items():
                if v != cnt.get(aff, 0):
                    errs.append('%s counter for %s is %s, true count %s' % (node.name, aff, v, cnt.get(aff, 0)))
            return cnt, lim
        walk(cell)
    elif PROP == 'C03':
        for an, a in cell.apps.items():
            if a.server is None:
                continue
            srv = members.get(a.server)
            if srv is None:
                continue
            label = a.allocation.label if a.allocation else None
            if label not in srv.labels:
                errs.append('%s (partition %s) is on %s of partition %s' % (an, label, srv.name, srv.labels))
            if a.traits and not srv.traits.has(a.traits):
                errs.append('%s needs traits %s, %s offers %s' % (an, a.traits, srv.name, srv.traits.traits))
            if before.get(an) != a.server and states.get(a.server) is not S.State.up:
                errs.append('%s newly placed on %s which is %s' % (an, a.server, states.get(a.server)))
    elif PROP == 'C08':
        now = CLOCK.now
        for an, a in cell.apps.items():
            srv = before.get(an)
            if (srv in states and states[srv] is S.State.down and not a.blacklisted and
                    a.final_rank != S._UNPLACED_RANK and a.data_retention_timeout is not None and
                    check.since[srv] + a.data_retention_timeout > now and a.server != srv):
                errs.append('%s lost its placement on down server %s before its retention timeout '
                            '(down since %.0f, retention %s, now %.0f)' % (an, srv, check.since[srv],
                                                                         a.data_retention_timeout, now))
            if (srv in states and states[srv] is S.State.frozen and not a.blacklisted and
                    a.final_rank != S._UNPLACED_RANK and a.server != srv):
                errs.append('%s left frozen server %s' % (an, srv))
        for an, a in cell.apps.items():
            if a.blacklisted and a.server is not None:
                errs.append('blacklisted %s is placed on %s' % (an, a.server))
            if a.server is not None and before.get(an) != a.server and states.get(a.server) is not S.State.up:
                errs.append('%s newly placed on non-up %s' % (an, a.server))
    return errs


def rand_history(rng):
    h = [('rack', 'r1'), ('rack', 'r2')]
    nsrv = rng.randint(2, 4)
    for i in range(nsrv):
        h.append(('server', 's%d' % i, rng.choice(['r1', 'r2']), [rng.choice([2, 3, 4]) for _ in range(3)],
                  rng.choice([0, 0, 2]), rng.choice([None, None, 'p2'])))
    h.append(('igroup', 'g', rng.choice([1, 2, 3])))
    h.append(('alloc', None, 'a1', [1, 1, 1], rng.choice([100, 90]), rng.choice([None, 0.5, 1.5]), 0))
    n = 0
    # instances of one affinity share their limits (quantifier of C04)
    limits = {aff: rng.choice([None, None, {'server': 1}, {'rack': 1}, {'cell': 2}, {'rack': 2, 'server': 1}])
              for aff in ('p.a', 'p.b')}
    for step in range(rng.randint(6, 16)):
        c = rng.random()
        if c < 0.35:
            n += 1
            h.append(('app', 'p.a#%d' % n, rng.choice([None, None, 'p2']), rng.choice([None, 'a1']),
                      rng.choice([0, 1, 10, 50]), [rng.choice([0, 1, 1, 2, 2, 3]) for _ in range(3)],
                      None, None,
                      rng.choice([None, None, 'g']), rng.choice([0, 50, None]), rng.choice([0, 0, 500]),
                      rng.choice([0, 0, 2])))
            aff = rng.choice(['p.a', 'p.b'])
            h[-1] = h[-1][:6] + (aff, limits[aff]) + h[-1][8:]
        elif c < 0.42 and n:
            h.append(('rmapp', 'p.a#%d' % rng.randint(1, n)))
        elif c < 0.45 and n:
            h.append(('move', 'p.a#%d' % rng.randint(1, n), rng.choice([None, 'p2']), rng.choice([None, 'a1'])))
        elif c < 0.55:
            h.append(('state', 's%d' % rng.randrange(nsrv), rng.choice(['up', 'down', 'frozen'])))
        elif c < 0.6 and n:
            h.append(('blacklist', 'p.a#%d' % rng.randint(1, n), rng.choice([True, False])))
        elif c < 0.65:
            h.append(('igroup', 'g', rng.choice([0, 1, 2, 3])))
        elif c < 0.7:
            h.append(('tick', rng.choice([10, 100])))
        elif c < 0.73:
            h.append(('reset_children',))
        elif c < 0.76:
            h.append(('rmserver', 's%d' % rng.randrange(nsrv)))
        elif c < 0.78:
            h.append(('readd', 's%d' % rng.randrange(nsrv)))
        else:
            h.append(('schedule',))
    h.append(('schedule',))
    return h


def shrink(h):
    cur = list(h)
    changed = True
    while changed:
        changed = False
        for i in range(len(cur)):
            cand = cur[:i] + cur[i + 1:]
            try:
                _, errs = build(cand)
            except Exception:    # noqa
                continue
            if errs:
                cur = cand
                changed = True
                break
    return cur


def known_signature(h):
    """Histories of the recorded known findings: an instance moved to another allocation ('move': C03 / C07 standing
    clause) or an identity group reconfigured after instances were scheduled (C08: invalidated identity on a non-up
    server)."""
    if any(op[0] == 'move' for op in h):
        return True
    groups = [op[1] for op in h if op[0] == 'igroup']
    return len(groups) != len(set(groups))


def main(argv):
    if argv[0] == '--input':
        case = json.loads(argv[1])
        _, errs = build([tuple(op) for op in case['history']])
        print('history:', json.dumps(case['history']))
        print('result:', errs or 'property holds on this history')
        return 1 if errs else 0
    rng = random.Random(int(os.environ.get('VERIF_SEED', '0')))
    t0 = time.time()
    n = 0
    fallback = None
    while time.time() - t0 < float(os.environ.get('VERIF_REPLAY_BUDGET', '60')):
        n += 1
        h = rand_history(rng)
        try:
            _, errs = build(h)
        except Exception as ex:  # noqa
            continue
        if errs:
            h = shrink(h)
            _, errs = build(h)
            found = {'history': h, 'why': errs[:3], 'property': PROP}
            if len(argv) > 1 and argv[1] == 'bounded-fallback' and known_signature(h):
                # the recorded known findings (known_findings.json) are reported as KNOWN-FINDING by the check itself:
                # a history that goes through one of them is not a new violation of a function that left the reach
                continue
            if PROP == 'C07' and any(op[0] == 'move' for op in h):
                # a history that goes through the known finding (instance moved to another partition keeps its
                # server): keep it as a fall-back and look for one that does not
                fallback = fallback or found
                continue
            print('FAILING-INPUT ' + json.dumps(found))
            return 0
    if fallback:
        print('FAILING-INPUT ' + json.dumps(fallback))
        return 0
    print('searched %d histories, none fails' % n)
    return 0


if __name__ == '__main__':
    sys.exit(main(sys.argv[1:]))
