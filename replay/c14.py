"""Replay / failing-sequence search for C14 on the real VipMgr / RuleMgr / EndpointsMgr in a temp directory.

Oracle: a reference map name -> owner; allocate binds only free names (to the caller), release removes
only the owner's binding, garbage collection removes exactly the bindings whose owner file is gone.
"""
import json
import logging
import os
import random
import shutil
import sys
import tempfile
import time

logging.disable(logging.CRITICAL)

from treadmill import vipfile, rulefile, endpoints, firewall   # noqa: E402


def run(seq):
    root = tempfile.mkdtemp(prefix='c14_', dir=os.environ.get('TMPDIR', '/tmp'))
    errs = []
    try:
        owners_dir = os.path.join(root, 'owners')
        os.makedirs(owners_dir)
        vips = vipfile.VipMgr('192.168.0.0/29', os.path.join(root, 'vips'), owners_dir)
        os.makedirs(os.path.join(root, 'rules'))
        rules = rulefile.RuleMgr(os.path.join(root, 'rules'), owners_dir)
        model_v, model_r, model_e = {}, {}, {}
        os.makedirs(os.path.join(root, 'endpoints'))
        eps = endpoints.EndpointsMgr(os.path.join(root, 'endpoints'))
        alive = set()
        for op in seq:
            k = op[0]
            if k == 'owner+':
                open(os.path.join(owners_dir, op[1]), 'w').close()
                alive.add(op[1])
            elif k == 'owner-':
                p = os.path.join(owners_dir, op[1])
                if os.path.exists(p):
                    os.unlink(p)
                alive.discard(op[1])
            elif k == 'valloc':
                try:
                    ip = vips.alloc(op[1], op[2])
                except Exception:   # noqa
                    ip = None
                if ip is not None:
                    if ip in model_v:
                        errs.append('ip %s handed to %s while held by %s' % (ip, op[1], model_v[ip]))
                    if ip not in ['192.168.0.%d' % i for i in range(1, 7)]:
                        errs.append('ip %s outside the network' % ip)
                    model_v[ip] = op[1]
            elif k == 'vfree':
                vips.free(op[1], op[2])
                if model_v.get(op[2]) == op[1]:
                    del model_v[op[2]]
            elif k == 'vgc':
                vips.garbage_collect()
                for ip, o in list(model_v.items()):
                    if o not in alive:
                        del model_v[ip]
            elif k == 'rcreate':
                rule = firewall.PassThroughRule(op[2], op[3])
                key = ('c', op[2], op[3])
                try:
                    rules.create_rule('c1', rule, op[1])
                    ok = True
                except OSError:
                    ok = False
                if ok:
                    if key in model_r and model_r[key] != op[1]:
                        errs.append('rule %r re-bound from %s to %s' % (key, model_r[key], op[1]))
                    model_r.setdefault(key, op[1])
            elif k == 'runlink':
                rule = firewall.PassThroughRule(op[2], op[3])
                key = ('c', op[2], op[3])
                rules.unlink_rule('c1', rule, op[1])
                if model_r.get(key) == op[1]:
                    del model_r[key]
            elif k == 'ecreate':
                # (appname, endpoint, owner): the recorded owner is the symlink target
                spec = (op[1], 'tcp', op[2], 4000, 1, 80)
                try:
                    eps.create_spec(*spec, owner=os.path.join(owners_dir, op[3]))
                    ok = True
                except OSError:
                    ok = False
                if ok and spec not in model_e:
                    model_e[spec] = op[3]
            elif k == 'eunlink':
                spec = (op[1], 'tcp', op[2], 4000, 1, 80)
                eps.unlink_spec(*spec, owner=op[3])
                if model_e.get(spec) == op[3]:
                    del model_e[spec]
            elif k == 'eunlink_all':
                # what a finishing container calls: releases the caller's specs of the instance, nobody else's
                eps.unlink_all(op[1], owner=op[2])
                for spec, o in list(model_e.items()):
                    if spec[0] == op[1] and o == op[2]:
                        del model_e[spec]
            elif k == 'rgc':
                rules.garbage_collect()
                for key, o in list(model_r.items()):
                    if o not in alive:
                        del model_r[key]
            real_v = {ip: o for ip, o in vips.list()}
            if real_v != model_v:
                errs.append('vips are %r, expected %r after %r' % (real_v, model_v, op))
                break
            real_e = {name: os.path.basename(os.readlink(os.path.join(root, 'endpoints', name)))
                      for name in os.listdir(os.path.join(root, 'endpoints'))}
            exp_e = {endpoints._namify(appname=k2[0], proto=k2[1], endpoint=k2[2], real_port=k2[3], pid=k2[4],
                                       port=k2[5]): o for k2, o in model_e.items()}
            if real_e != exp_e:
                errs.append('endpoint specs are %r, expected %r after %r' % (real_e, exp_e, op))
                break
            real_r = {}
            for name in os.listdir(os.path.join(root, 'rules')):
                real_r[name] = os.path.basename(os.readlink(os.path.join(root, 'rules', name)))
            exp_r = {rules._filenameify('c1', firewall.PassThroughRule(k2[1], k2[2])): o for k2, o in model_r.items()}
            if real_r != exp_r:
                errs.append('rules are %r, expected %r after %r' % (real_r, exp_r, op))
                break
    finally:
        shutil.rmtree(root, ignore_errors=True)
    return errs


def rand_seq(rng):
    owners = ['o1', 'o2', 'o3']
    ips = ['192.168.0.%d' % i for i in range(1, 5)]
    seq = []
    if rng.random() < 0.15:
        # drive the address pool to its end: owners allocate and free, then fill
        seq = [('owner+', o) for o in owners]
        for _ in range(rng.randint(0, 4)):
            seq.append(('valloc', rng.choice(owners), None))
            if rng.random() < 0.5:
                seq.append(('vfree', rng.choice(owners), rng.choice(ips)))
        seq += [('valloc', rng.choice(owners), None) for _ in range(rng.randint(5, 9))]
        return seq
    if rng.random() < 0.15:
        # two generations of one instance register endpoints; each releases its own
        seq = [('owner+', o) for o in owners]
        for _ in range(rng.randint(2, 6)):
            seq.append(('ecreate', 'p.a#1', rng.choice(['http', 'ssh', 'ws']), rng.choice(owners)))
        for _ in range(rng.randint(1, 3)):
            seq.append(('eunlink_all', 'p.a#1', rng.choice(owners)))
        return seq
    for _ in range(rng.randint(4, 14)):
        c = rng.random()
        o = rng.choice(owners)
        if c < 0.2:
            seq.append(('owner+', o))
        elif c < 0.3:
            seq.append(('owner-', o))
        elif c < 0.45:
            seq.append(('valloc', o, rng.choice([None, None] + ips)))
        elif c < 0.55:
            seq.append(('vfree', o, rng.choice(ips)))
        elif c < 0.62:
            seq.append(('vgc',))
        elif c < 0.78:
            seq.append(('rcreate', o, rng.choice(ips), rng.choice(ips)))
        elif c < 0.9:
            seq.append(('runlink', o, rng.choice(ips), rng.choice(ips)))
        elif c < 0.94:
            seq.append(('rgc',))
        elif c < 0.98:
            seq.append(('ecreate', rng.choice(['p.a#1', 'p.a#2']), rng.choice(['http', 'ssh']), o))
        else:
            seq.append(('eunlink', rng.choice(['p.a#1', 'p.a#2']), rng.choice(['http', 'ssh']), o))
    return seq


def main(argv):
    if argv[0] == '--input':
        case = json.loads(argv[1])
        errs = run([tuple(o) for o in case['sequence']])
        print('sequence:', json.dumps(case['sequence']))
        print('result:', errs or 'agrees with the property')
        return 1 if errs else 0
    rng = random.Random(int(os.environ.get('VERIF_SEED', '0')))
    t0 = time.time()
    n = 0
    n_max = int(argv[1]) if argv[0] == '--bounded' else 10 ** 9
    budget = 1e9 if argv[0] == '--bounded' else float(os.environ.get('VERIF_REPLAY_BUDGET', '30'))
    while n < n_max and time.time() - t0 < budget:
        n += 1
        seq = rand_seq(rng)
        errs = run(seq)
        if errs:
            print('FAILING-INPUT ' + json.dumps({'sequence': seq, 'why': errs[:3]}))
            return 0
    print('searched %d sequences, none fails' % n)
    return 0


if __name__ == '__main__':
    sys.exit(main(sys.argv[1:]))
