"""Replay / failing-input search for C19 against the real treadmill.api.allocation.

Runs under /venv/bin/python with PYTHONPATH=<repo>/lib/python.  The oracle is
the property statement computed independently: a request is accepted iff it
fits partition capacity minus the other reservations, and every limited trait
it carries, counting only reservations carrying that trait.
  --search <obligation>   bounded search for an input on which the real code disagrees with the oracle
  --input <json>          re-run one input, exit 1 if it (still) fails
"""
import itertools
import json
import sys

from treadmill import exc
from treadmill.api import allocation as A


def cpu(s):
    return int(s[:-1])


def size(s):
    return int(s[:-1]) * {'K': 1024, 'M': 1024 ** 2, 'G': 1024 ** 3}[s[-1].upper()]


def oracle(case):
    part, allocs, rsrc, old_id = case['part'], case['allocs'], case['rsrc'], case['old_id']
    others = [a for a in allocs if a['_id'] != old_id]
    def fits(lim, pool):
        return (cpu(rsrc['cpu']) <= cpu(lim['cpu']) - sum(cpu(a['cpu']) for a in pool) and
                size(rsrc['disk']) <= size(lim['disk']) - sum(size(a['disk']) for a in pool) and
                size(rsrc['memory']) <= size(lim['memory']) - sum(size(a['memory']) for a in pool))
    ok = fits(part, others)
    for lim in part['limits']:
        if lim['trait'] in rsrc.get('traits', []):
            ok = ok and fits(lim, [a for a in others if lim['trait'] in a['traits']])
    return ok


class _Admin:
    def __init__(self, case):
        self.case = case

    def list(self, _filter):
        return [dict(a) for a in self.case['allocs']]


def run(case):
    """-> None if the real code agrees with the oracle, else a description."""
    A._admin_cell_alloc = lambda: _Admin(case)
    A._partition_get = lambda partition, cell: json.loads(json.dumps(case['part']))
    rsrc = dict(case['rsrc'])
    alloc_name, cell = case['old_id'].rsplit('/', 1)
    expected = oracle(case)
    try:
        A._check_capacity(cell, alloc_name, rsrc)
        got = True
    except exc.InvalidInputError:
        got = False
    except Exception as ex:  # noqa
        return 'service failure %r on schema-valid input (expected %s)' % (ex, 'accept' if expected else 'reject')
    if got != expected:
        return 'real code %s, property says %s' % ('accepts' if got else 'rejects', 'accept' if expected else 'reject')
    return None


def cases():
    cpus = ['10%', '40%']
    sizes = ['1G', '2048M']
    traits = [[], ['t1'], ['t1', 't2']]
    for lim_cpu, lim_sz, rcpu, rsz, rtr, atr, acpu, (amem, adisk), pmem in itertools.product(
            ['50%', '100%'], ['2G', '4G'], cpus, sizes, traits, traits, cpus,
            [('1G', '1G'), ('1048576K', '3G'), ('3G', '1024M')], ['8G', '3G']):
        part = {'cpu': '100%', 'memory': pmem, 'disk': '8G',
                'limits': [{'trait': 't1', 'cpu': lim_cpu, 'memory': lim_sz, 'disk': '4G'}]}
        allocs = [{'_id': 'a/x/cell', 'cpu': acpu, 'memory': amem, 'disk': adisk, 'traits': atr},
                  {'_id': 'a/old/cell', 'cpu': '90%', 'memory': '7G', 'disk': '7G', 'traits': ['t1']}]
        rsrc = {'cpu': rcpu, 'memory': rsz, 'disk': rsz, 'partition': 'p', 'traits': rtr}
        yield {'part': part, 'allocs': allocs, 'rsrc': rsrc, 'old_id': 'a/old/cell'}
        rs2 = dict(rsrc)
        del rs2['traits']
        yield {'part': part, 'allocs': allocs, 'rsrc': rs2, 'old_id': 'a/old/cell'}


def cases2():
    """Two limited traits, reservations carrying both, the replaced reservation not last in the listing."""
    for l1, l2, rtr, old_pos, rcpu, rmem in itertools.product(
            [('60%', '6G', '6G'), ('30%', '3G', '3G')], [('60%', '6G', '6G'), ('30%', '2G', '3G')],
            [['t1', 't2'], ['t2'], ['t2', 't1'], []], [0, 1, 2], ['20%', '40%', '60%'], ['1G', '2G', '5G']):
        part = {'cpu': '100%', 'memory': '8G', 'disk': '8G',
                'limits': [{'trait': 't1', 'cpu': l1[0], 'memory': l1[1], 'disk': l1[2]},
                           {'trait': 't2', 'cpu': l2[0], 'memory': l2[1], 'disk': l2[2]}]}
        allocs = [{'_id': 'a/x/cell', 'cpu': '20%', 'memory': '1G', 'disk': '2G', 'traits': ['t1', 't2']},
                  {'_id': 'a/y/cell', 'cpu': '20%', 'memory': '2G', 'disk': '1G', 'traits': ['t2', 't1']},
                  {'_id': 'a/z/cell', 'cpu': '30%', 'memory': '3G', 'disk': '3G', 'traits': []}]
        old = allocs[old_pos]['_id']
        yield {'part': part, 'allocs': allocs, 'old_id': old,
               'rsrc': {'cpu': rcpu, 'memory': rmem, 'disk': rmem, 'partition': 'p', 'traits': rtr}}


def main(argv):
    if argv[0] == '--input':
        case = json.loads(argv[1])
        why = run(case)
        print('input:', json.dumps(case))
        print('result:', why or 'agrees with the property')
        return 1 if why else 0
    n = 0
    for case in itertools.chain(cases(), cases2()):
        n += 1
        why = run(case)
        if why:
            case['why'] = why
            print('FAILING-INPUT ' + json.dumps(case))
            return 0
    print('searched %d cases, none fails' % n)
    return 0


if __name__ == '__main__':
    sys.exit(main(sys.argv[1:]))
