"""Replay / failing-input search for C06 on the real Allocation.priv_utilization_queue (and the merged queue).

Oracle from the statement: each instance once; priority order (running before pending, then arrival);
priority 0 after all others; boosted rank iff cumulative demand before the instance is strictly inside the
reservation in every dimension (and within it including the instance => boosted); beyond the cap => unplaced.
"""
import json
import logging
import os
import random
import sys
import time

import numpy as np

logging.disable(logging.CRITICAL)
from treadmill import scheduler as S   # noqa: E402

S.DIMENSION_COUNT = 3


def run(case):
    alloc = S.Allocation(case['reserved'], rank=case['rank'])
    # as the loader does (the constructor's max_utilization argument is overwritten by its own update() call)
    alloc.update(case['reserved'], case['rank'], case['adj'], case['max_util'])
    apps = []
    for i, (prio, demand, placed) in enumerate(case['apps']):
        a = S.Application('p.a#%d' % i, prio, demand, 'p.a')
        a.global_order = i
        if placed:
            a.server = 's'
        alloc.add(a)
        apps.append(a)
    q = list(alloc.priv_utilization_queue())
    errs = []
    names = [e[-1].name for e in q]
    if sorted(names) != sorted(a.name for a in apps):
        errs.append('queue does not list every instance exactly once: %r' % names)
    keys = [(-e[-1].priority, 0 if e[-1].server else 1, e[-1].global_order) for e in q]
    if keys != sorted(keys):
        errs.append('not in priority / running-first / arrival order: %r' % keys)
    acc = np.zeros(3)
    res = np.array(case['reserved'], dtype=float)
    cap = float('inf') if case['max_util'] is None else case['max_util']
    for e in q:
        rank, ub, ua, pending, order, a = e
        before = acc.copy()
        acc = acc + a.demand
        if a.priority == 0:
            if ub != float('inf') or ua != float('inf'):
                errs.append('%s: priority 0 without infinite utilisation' % a.name)
            continue
        util_after = np.max((acc - res) / (res + np.finfo(float).eps))
        if util_after > cap - 1:
            if rank != S._UNPLACED_RANK:
                errs.append('%s: beyond the cap but rank %s' % (a.name, rank))
            continue
        if rank == S._UNPLACED_RANK:
            errs.append('%s: within the cap but unplaced' % a.name)
        if (acc <= res).all() and (a.demand > 0).all() and rank != case['rank'] - case['adj']:
            errs.append('%s: cumulative demand %s within reservation %s but rank %s' % (a.name, acc, res, rank))
        if not (before < res).all() and rank == case['rank'] - case['adj'] and case['adj'] != 0:
            errs.append('%s: boosted although the reservation was already used up (%s of %s)' % (a.name, before, res))
    return errs


def rand_case(rng):
    return {'reserved': [rng.choice([0, 2, 4]) for _ in range(3)], 'rank': 100, 'adj': rng.choice([0, 10]),
            'max_util': rng.choice([None, 0.5, 1.0, 1.5, 3.0]),
            'apps': [(rng.choice([0, 1, 1, 10, 50]), [rng.choice([0, 1, 2]) for _ in range(3)], rng.random() < 0.4)
                     for _ in range(rng.randint(0, 6))]}


def main(argv):
    if argv[0] == '--input':
        case = json.loads(argv[1])
        errs = run(case)
        print('input:', json.dumps(case))
        print('result:', errs or 'agrees with the property')
        return 1 if errs else 0
    rng = random.Random(int(os.environ.get('VERIF_SEED', '0')))
    t0 = time.time()
    n = 0
    while time.time() - t0 < float(os.environ.get('VERIF_REPLAY_BUDGET', '30')):
        n += 1
        case = rand_case(rng)
        errs = run(case)
        if errs:
            case['why'] = errs[:3]
            print('FAILING-INPUT ' + json.dumps(case))
            return 0
    print('searched %d cases, none fails' % n)
    return 0


if __name__ == '__main__':
    sys.exit(main(sys.argv[1:]))
