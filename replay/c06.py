"""Replay / failing-input search for C06 on the real Allocation.priv_utilization_queue (and the merged queue).

Oracle from the statement: each instance once; priority order (running before pending, then arrival);
priority 0 after all others; boosted rank iff cumulative demand before the instance is strictly inside the
reservation in every dimension (and within it including the instance => boosted); beyond the cap => unplaced.
"""
import json
import logging
import os
import random
import sys
import time

import numpy as np

logging.disable(logging.CRITICAL)
from treadmill import scheduler as S   # noqa: E402

S.DIMENSION_COUNT = 3


def run(case):
    alloc = S.Allocation(case['reserved'], rank=case['rank'])
    # as the loader does (the constructor's max_utilization argument is overwritten by its own update() call)
    alloc.update(case['reserved'], case['rank'], case['adj'], case['max_util'])
    apps = []
    for i, (prio, demand, placed) in enumerate(case['apps']):
        a = S.Application('p.a#%d' % ((i * 7 + 3) % 11), prio, demand, 'p.a')   # name order != arrival order
        a.global_order = i
        if placed:
            a.server = 's'
        alloc.add(a)
        apps.append(a)
    q = list(alloc.priv_utilization_queue())
    errs = []
    names = [e[-1].name for e in q]
    if sorted(names) != sorted(a.name for a in apps):
        errs.append('queue does not list every instance exactly once: %r' % names)
    keys = [(-e[-1].priority, 0 if e[-1].server else 1, e[-1].global_order) for e in q]
    if keys != sorted(keys):
        errs.append('not in priority / running-first / arrival order: %r' % keys)
    acc = np.zeros(3)
    res = np.array(case['reserved'], dtype=float)
    cap = float('inf') if case['max_util'] is None else case['max_util']
    for e in q:
        rank, ub, ua, pending, order, a = e
        before = acc.copy()
        acc = acc + a.demand
        if a.priority == 0:
            if ub != float('inf') or ua != float('inf'):
                errs.append('%s: priority 0 without infinite utilisation' % a.name)
            continue
        util_after = np.max((acc - res) / (res + np.finfo(float).eps))
        if util_after > cap - 1:
            if rank != S._UNPLACED_RANK:
                errs.append('%s: beyond the cap but rank %s' % (a.name, rank))
            continue
        if rank == S._UNPLACED_RANK:
            errs.append('%s: within the cap but unplaced' % a.name)
        if (acc <= res).all() and (a.demand > 0).all() and rank != case['rank'] - case['adj']:
            errs.append('%s: cumulative demand %s within reservation %s but rank %s' % (a.name, acc, res, rank))
        if not (before < res).all() and rank == case['rank'] - case['adj'] and case['adj'] != 0:
            errs.append('%s: boosted although the reservation was already used up (%s of %s)' % (a.name, before, res))
    return errs


def build_tree(node, path, allocs):
    alloc = S.Allocation(node['reserved'], rank=node['rank'])
    alloc.update(node['reserved'], node['rank'], node['adj'], node['max_util'])
    mine = []
    for (name, prio, demand, placed, order) in node['apps']:
        a = S.Application(name, prio, demand, 'p.a')
        a.global_order = order
        if placed:
            a.server = 's'
        alloc.add(a)
        mine.append(a)
    allocs.append((path, node, alloc, mine))
    for i, sub in enumerate(node['subs']):
        alloc.add_sub_alloc('s%d' % i, build_tree(sub, path + (i,), allocs))
    return alloc


def run_tree(case):
    """Clauses of the statement on the merged queue of a whole allocation tree (bounded stand-in for
    Allocation.utilization_queue, which is not under contract)."""
    allocs = []
    root = build_tree(case['tree'], (), allocs)
    q = list(root.utilization_queue(np.array(case['free'], dtype=float)))
    errs = []
    every = sorted(a.name for _, _, _, mine in allocs for a in mine)
    if sorted(e[-1].name for e in q) != every:
        errs.append('merged queue does not list every instance of the tree exactly once: %r' % [e[-1].name for e in q])
        return errs
    ranks = [e[0] for e in q]
    if ranks != sorted(ranks):
        errs.append('ranks are not non-decreasing along the queue: %r' % ranks)
    pos = {e[-1].name: i for i, e in enumerate(q)}
    for i, e in enumerate(q):
        if e[-1].priority == 0 and any(f[0] == e[0] and f[-1].priority != 0 for f in q[i + 1:]):
            errs.append('%s (priority 0) comes before another instance of rank %s' % (e[-1].name, e[0]))
    for path, node, alloc, mine in allocs:
        order = sorted(mine, key=lambda a: pos[a.name])
        keys = [(-a.priority, 0 if a.server else 1, a.global_order) for a in order]
        if keys != sorted(keys):
            errs.append('allocation %r: not in priority / running-first / arrival order: %r' % (path, [a.name for a in order]))
        acc = np.zeros(3)
        res = np.array(node['reserved'], dtype=float)
        cap = float('inf') if node['max_util'] is None else node['max_util']
        for a in sorted(mine, key=lambda a: (-a.priority, 0 if a.server else 1, a.global_order)):
            before = acc.copy()
            acc = acc + a.demand
            rank = q[pos[a.name]][0]
            if a.priority == 0:
                continue
            util_after = np.max((acc - res) / (res + np.finfo(float).eps))
            if util_after > cap - 1:
                if rank != S._UNPLACED_RANK:
                    errs.append('%s: beyond the cap but rank %s' % (a.name, rank))
                continue
            if rank == S._UNPLACED_RANK:
                errs.append('%s: within the cap but unplaced' % a.name)
            if (acc <= res).all() and (a.demand > 0).all() and rank != node['rank'] - node['adj']:
                errs.append('%s: cumulative demand %s within reservation %s but rank %s' % (a.name, acc, res, rank))
            if not (before < res).all() and rank == node['rank'] - node['adj'] and node['adj'] != 0:
                errs.append('%s: boosted although the reservation was already used up' % a.name)
    return errs


def rand_tree(rng, depth, counter):
    node = {'reserved': [rng.choice([0, 2, 4]) for _ in range(3)], 'rank': rng.choice([50, 100, 100, 200]),
            'adj': rng.choice([0, 10, 60]), 'max_util': rng.choice([None, None, 0.5, 1.0, 1.5, 3.0]), 'apps': [], 'subs': []}
    for _ in range(rng.randint(0, 4)):
        counter[0] += 1
        node['apps'].append(('p.%s#%d' % (rng.choice('abc'), rng.randint(0, 10 ** 6)), rng.choice([0, 1, 1, 10, 50]),
                             [rng.choice([0, 1, 2]) for _ in range(3)], rng.random() < 0.4, counter[0]))
    if depth > 0:
        for _ in range(rng.randint(0, 3)):
            node['subs'].append(rand_tree(rng, depth - 1, counter))
    return node


def rand_tree_case(rng):
    tree = rand_tree(rng, rng.randint(0, 3), [0])
    # arrival order is independent of the position in the tree
    apps = []
    def collect(n):
        apps.extend((n, i) for i in range(len(n['apps'])))
        for s_ in n['subs']:
            collect(s_)
    collect(tree)
    orders = list(range(len(apps)))
    rng.shuffle(orders)
    names = set()
    for (n, i), o in zip(apps, orders):
        nm, pr, dm, pl, _ = n['apps'][i]
        while nm in names:
            nm += 'x'
        names.add(nm)
        n['apps'][i] = (nm, pr, dm, pl, o)
    return {'tree': tree, 'free': [rng.choice([0, 1, 5]) for _ in range(3)]}


def rand_case(rng):
    return {'reserved': [rng.choice([0, 2, 4]) for _ in range(3)], 'rank': 100, 'adj': rng.choice([0, 10]),
            'max_util': rng.choice([None, 0.5, 1.0, 1.5, 3.0]),
            'apps': [(rng.choice([0, 1, 1, 10, 50]), [rng.choice([0, 1, 2]) for _ in range(3)], rng.random() < 0.4)
                     for _ in range(rng.randint(0, 6))]}


def main(argv):
    if argv[0] == '--bounded':
        # deterministic bounded exploration of the merged queue: N random allocation trees of depth <= 3
        rng = random.Random(20240601 + int(os.environ.get('VERIF_SEED', '0')))
        for k in range(int(argv[1])):
            case = rand_tree_case(rng)
            errs = run_tree(case)
            if errs:
                case['why'] = errs[:3]
                print('FAILING-INPUT ' + json.dumps(case))
                return 0
        print('explored %s trees, none fails' % argv[1])
        return 0
    if argv[0] == '--input':
        case = json.loads(argv[1])
        errs = run_tree(case) if 'tree' in case else run(case)
        print('input:', json.dumps(case))
        print('result:', errs or 'agrees with the property')
        return 1 if errs else 0
    rng = random.Random(int(os.environ.get('VERIF_SEED', '0')))
    t0 = time.time()
    n = 0
    while time.time() - t0 < float(os.environ.get('VERIF_REPLAY_BUDGET', '30')):
        n += 1
        if n % 2:
            case = rand_case(rng)
            errs = run(case)
        else:
            case = rand_tree_case(rng)
            errs = run_tree(case)
        if errs:
            case['why'] = errs[:3]
            print('FAILING-INPUT ' + json.dumps(case))
            return 0
    print('searched %d cases, none fails' % n)
    return 0


if __name__ == '__main__':
    sys.exit(main(sys.argv[1:]))
