"""Replay / failing-history search for C09, C10 and C11 on the real Master / Loader over an in-memory storage backend.

A history is a list of ZooKeeper-level events (instances scheduled / deleted, server presence appearing / disappearing,
server records changed or deleted, identity groups resized) each followed by the master's handlers and a cycle, with a
master restart (fail-over) and a crash after the k-th storage write of a publication where asked.

Oracles (written from the statements, independent of the contracts):
 C09  after every completed cycle (init_schedule or reschedule) the /placement tree holds exactly one entry per placed
      instance, under the server the model holds, carrying the model's identity and expiry, and nothing else.
 C10  at an injected crash no instance is recorded under two servers; a master started on that store completes
      load_model + init_schedule, publishes its model (C09 oracle) and passes its own check_placement_integrity.
 C11  right after load_model of a restarted master every entry recorded under a healthy server (present, presence not
      newer than the entry, entry still fits) is in the model on that server with the recorded identity and expiry, and
      nothing is placed that is not recorded.
VERIF_PROP selects which oracle reports.
"""
import copy
import json
import logging
import os
import random
import sys
import threading
import time

logging.disable(logging.CRITICAL)

from treadmill import scheduler                    # noqa: E402
from treadmill import zknamespace as z             # noqa: E402
from treadmill.scheduler import backend as be      # noqa: E402
from treadmill.scheduler import master             # noqa: E402

scheduler.DIMENSION_COUNT = 3
PROP = os.environ.get('VERIF_PROP', 'C09')


class Crash(BaseException):
    pass


class Meta:
    def __init__(self, ctime):
        self.ctime = ctime


class Mem(be.Backend):
    def __init__(self):
        super(Mem, self).__init__()
        self.nodes = {'/': [None, 0]}
        self.clock = 1000000
        self.writes = 0
        self.crash_after = None

    def tick(self):
        self.clock += 1000

    def _w(self):
        if self.crash_after is not None and self.writes >= self.crash_after:
            raise Crash()
        self.writes += 1
        self.tick()

    def _create(self, path, data):
        cur = ''
        for part in [p for p in path.split('/') if p][:-1]:
            cur += '/' + part
            self.nodes.setdefault(cur, [None, self.clock])
        self.nodes[path] = [copy.deepcopy(data), self.clock]

    def list(self, path):
        if path not in self.nodes:
            raise be.ObjectNotFoundError(path)
        pre = path.rstrip('/') + '/'
        return sorted(n[len(pre):] for n in self.nodes if n.startswith(pre) and '/' not in n[len(pre):])

    def get(self, path):
        if path not in self.nodes:
            raise be.ObjectNotFoundError(path)
        return copy.deepcopy(self.nodes[path][0])

    def get_with_metadata(self, path):
        if path not in self.nodes:
            raise be.ObjectNotFoundError(path)
        return copy.deepcopy(self.nodes[path][0]), Meta(self.nodes[path][1])

    def exists(self, path):
        return path in self.nodes

    def put(self, path, value):
        self._w()
        if path in self.nodes:
            self.nodes[path][0] = copy.deepcopy(value)       # set(): creation time kept
        else:
            self._create(path, value)

    def ensure_exists(self, path):
        if path not in self.nodes:
            self._w()
            self._create(path, None)

    def delete(self, path):
        self._w()
        pre = path.rstrip('/') + '/'
        for n in [n for n in self.nodes if n == path or n.startswith(pre)]:
            del self.nodes[n]

    def update(self, path, data, check_content=False):
        if path not in self.nodes:
            raise be.ObjectNotFoundError(path)
        self._w()
        self.nodes[path][0] = copy.deepcopy(data)

    def event_object(self):
        return threading.Event()

    # the outside world
    def world_put(self, path, value):
        self.tick()
        if path in self.nodes:
            self.nodes[path][0] = copy.deepcopy(value)
        else:
            self._create(path, value)

    def world_recreate(self, path, value):
        self.world_delete(path)
        self.tick()
        self._create(path, value)

    def world_delete(self, path):
        self.tick()
        pre = path.rstrip('/') + '/'
        for n in [n for n in self.nodes if n == path or n.startswith(pre)]:
            del self.nodes[n]


def stored(b):
    out = {}
    for s in b.list(z.PLACEMENT):
        for a in b.list(z.path.placement(s)):
            out.setdefault(a, []).append(s)
    return out


def srv(size, up_since=1, traits=None):
    d = {'memory': '%dM' % size, 'cpu': '%d%%' % size, 'disk': '%dM' % size, 'parent': 'rack:r1', 'up_since': up_since}
    if traits:
        d['traits'] = list(traits)      # reported by the node, not necessarily listed under /traits
    return d


def app(size, prio, lease=None, group=None, once=False, traits=None):
    d = {'memory': '%dM' % size, 'cpu': '%d%%' % size, 'disk': '%dM' % size, 'priority': prio, 'affinity': 'aff'}
    if traits:
        d['traits'] = list(traits)
    if lease:
        d['lease'] = lease
    if group:
        d['identity_group'] = group
    if once:
        d['schedule_once'] = True
    return d


def check_c09(b, m, where, errs):
    st = stored(b)
    for a, servers in sorted(st.items()):
        if len(servers) > 1:
            errs.append('%s: %s is recorded under %s' % (where, a, servers))
        ap = m.cell.apps.get(a)
        if ap is None or ap.server is None:
            errs.append('%s: entry for %s (under %s) but the model has it %s' %
                        (where, a, servers, 'pending' if ap is not None else 'not scheduled'))
        elif ap.server not in servers:
            errs.append('%s: %s recorded under %s, the model placed it on %s' % (where, a, servers, ap.server))
        else:
            data = b.get(z.path.placement(ap.server, a)) or {}
            if data.get('identity') != ap.identity:
                errs.append('%s: entry %s/%s carries identity %r, the model holds %r' %
                            (where, ap.server, a, data.get('identity'), ap.identity))
            if data.get('expires') != ap.placement_expiry:
                errs.append('%s: entry %s/%s carries expiry %r, the model holds %r' %
                            (where, ap.server, a, data.get('expires'), ap.placement_expiry))
    for a, ap in sorted(m.cell.apps.items()):
        if ap.server and a not in st:
            errs.append('%s: %s is placed on %s in the model but has no entry' % (where, a, ap.server))


def check_no_dup(b, where, errs):
    for a, servers in sorted(stored(b).items()):
        if len(servers) > 1:
            errs.append('%s: %s has placement records under %s' % (where, a, servers))


def recorded_healthy(b):
    """C11 ground truth read off the store before the restart: entry -> (server, identity, expires) for entries under a
    present server whose presence node is not newer than the entry."""
    out = {}
    for s in b.list(z.PLACEMENT):
        pres = z.path.server_presence(s)
        if pres not in b.nodes or z.path.server(s) not in b.nodes or not b.nodes[z.path.server(s)][0]:
            continue
        # "still offering the capacity of what is recorded on it": the recorded instances fit the declared size
        size = int(b.nodes[z.path.server(s)][0]['memory'][:-1])
        need = sum(int(b.nodes[z.path.scheduled(a)][0]['memory'][:-1]) for a in b.list(z.path.placement(s))
                   if z.path.scheduled(a) in b.nodes)
        if need > size:
            continue
        for a in b.list(z.path.placement(s)):
            node = z.path.placement(s, a)
            data, ctime = b.nodes[node]
            if b.nodes[pres][1] <= ctime and z.path.scheduled(a) in b.nodes:
                out[a] = (s, (data or {}).get('identity'), (data or {}).get('expires', 0))
    return out


def check_c11(b, m, truth, dups, where, errs):
    for a, (s, ident, exp) in sorted(truth.items()):
        if a in dups:
            continue
        ap = m.cell.apps.get(a)
        if ap is None:
            continue
        if ap.server != s:
            # allowed only if what is recorded on the server no longer fits it (capacity): detect by trying on a copy
            errs.append('%s: %s recorded under healthy %s is %s after reload' % (where, a, s, ap.server))
        else:
            if ident is not None and ap.identity != ident:
                errs.append('%s: %s reloaded with identity %r, recorded %r' % (where, a, ap.identity, ident))
            if ap.placement_expiry != exp:
                errs.append('%s: %s reloaded with expiry %r, recorded %r' % (where, a, ap.placement_expiry, exp))
    st = stored(b)
    for a, ap in sorted(m.cell.apps.items()):
        if ap.server and (a not in st or ap.server not in st[a]):
            errs.append('%s: %s is placed on %s after reload but is not recorded there' % (where, a, ap.server))


def new_master(b):
    return master.Master(b, 'cell')


def restart(b, where, errs, want):
    """Fail-over: a new master on the store as it is."""
    b.crash_after = None
    truth = recorded_healthy(b)
    dups = {a for a, ss in stored(b).items() if len(ss) > 1}
    m = new_master(b)
    try:
        m.load_model()
        if 'C11' in want:
            check_c11(b, m, truth, dups, where + ' / after load_model', errs)
        m.init_schedule()
    except Crash:
        raise
    except Exception as ex:     # noqa
        if 'C10' in want or 'C09' in want:
            errs.append('%s: the new master fails to start: %r' % (where, ex))
        return None
    if 'C09' in want or 'C10' in want:
        check_c09(b, m, where + ' / after restart', errs)
    if 'C10' in want:
        try:
            m.check_placement_integrity()
        except AssertionError as ex:
            errs.append('%s: the new master fails its own integrity check: %r' % (where, ex))
    return m


def run(case, want=None):
    want = want or {PROP}
    b = Mem()
    m = new_master(b)
    m.create_rootns()
    b.world_put(z.path.bucket('pod:p1'), {'parent': None})
    b.world_put(z.path.bucket('rack:r1'), {'parent': 'pod:p1'})
    b.world_put(z.CELL + '/pod:p1', None)
    b.world_put(z.path.traits(), ['ssd'])          # cell-wide trait list; servers may report traits that are not in it
    for s, size in case['servers']:
        b.world_put(z.path.server(s), srv(size, traits=case.get('server_traits', {}).get(s)))
        b.world_put(z.path.server_presence(s), {})
    for g, n in case.get('groups', []):
        b.world_put(z.path.identity_group(g), {'count': n})
    for a, d in case['apps']:
        b.world_put(z.path.scheduled(a), d)
    errs = []
    m.load_model()
    m.init_schedule()
    check_c09(b, m, 'first start', errs) if ('C09' in want) else None
    for k, op in enumerate(case['ops']):
        if errs:
            break
        kind = op[0]
        where = 'op %d %s' % (k, op)
        try:
            if kind == 'schedule':
                b.world_put(z.path.scheduled(op[1]), op[2])
                m.process_scheduled(b.list(z.SCHEDULED))
            elif kind == 'delete':
                b.world_delete(z.path.scheduled(op[1]))
                m.process_scheduled(b.list(z.SCHEDULED))
            elif kind == 'down':
                b.world_delete(z.path.server_presence(op[1]))
                m.process_server_presence(b.list(z.SERVER_PRESENCE))
            elif kind == 'up':
                b.world_recreate(z.path.server_presence(op[1]), {})
                m.process_server_presence(b.list(z.SERVER_PRESENCE))
            elif kind == 'resize':
                b.world_put(z.path.server(op[1]), srv(op[2], traits=case.get('server_traits', {}).get(op[1])))
                m.reload_servers([op[1]])
            elif kind == 'inject_dup':
                # a second record of a placed instance under another server (what an interrupted publication of an
                # older master, or the listed known finding, can leave behind); seen by the next fail-over
                st = stored(b)
                placed = sorted(a for a, ss in st.items() if len(ss) == 1)
                if placed:
                    a = placed[op[1] % len(placed)]
                    src = st[a][0]
                    others = [x for x, _ in case['servers'] if x != src and z.path.server(x) in b.nodes]
                    if others:
                        t = others[op[2] % len(others)]
                        b.world_put(z.path.placement(t, a), b.get(z.path.placement(src, a)))
            elif kind == 'resize_quiet':
                # the node re-registers with another capacity while no master is listening (seen by the next fail-over)
                b.world_put(z.path.server(op[1]), srv(op[2], traits=case.get('server_traits', {}).get(op[1])))
            elif kind == 'rmserver':
                b.world_delete(z.path.server(op[1]))
                b.world_delete(z.path.server_presence(op[1]))
                m.reload_servers([op[1]])
            elif kind == 'group':
                b.world_put(z.path.identity_group(op[1]), {'count': op[2]})
                m.load_identity_groups()
            elif kind == 'cycle':
                crash = op[1]
                start = b.writes
                b.crash_after = None if crash is None else start + crash
                try:
                    m.reschedule()
                    b.crash_after = None
                    if 'C09' in want:
                        check_c09(b, m, where, errs)
                    if 'C10' in want:
                        try:
                            m.check_placement_integrity()
                        except AssertionError as ex:
                            errs.append('%s: the master fails its own integrity check: %r' % (where, ex))
                except Crash:
                    if 'C10' in want:
                        check_no_dup(b, where + ' (crash after write %d)' % crash, errs)
                    m = restart(b, where + ' (crash after write %d)' % crash, errs, want)
                    if m is None:
                        break
            elif kind == 'restart':
                # fail-over without a crash; optionally dying inside init_schedule of the new master
                crash = op[1]
                b.crash_after = None
                truth = recorded_healthy(b)
                dups = {a for a, ss in stored(b).items() if len(ss) > 1}
                m2 = new_master(b)
                m2.load_model()
                if 'C11' in want:
                    check_c11(b, m2, truth, dups, where + ' / after load_model', errs)
                start = b.writes
                b.crash_after = None if crash is None else start + crash
                try:
                    m2.init_schedule()
                    b.crash_after = None
                    m = m2
                    if 'C09' in want or 'C10' in want:
                        check_c09(b, m, where, errs)
                    if 'C10' in want:
                        try:
                            m.check_placement_integrity()
                        except AssertionError as ex:
                            errs.append('%s: the new master fails its own integrity check: %r' % (where, ex))
                except Crash:
                    if 'C10' in want:
                        check_no_dup(b, where + ' (crash after write %d of init_schedule)' % crash, errs)
                    m = restart(b, where + ' (crash after write %d of init_schedule)' % crash, errs, want)
                    if m is None:
                        break
        except Crash:
            b.crash_after = None
        except Exception as ex:     # noqa
            errs.append('%s raised %r' % (where, ex))
            break
    return errs


def rand_case(rng):
    nsrv = rng.randint(2, 4)
    servers = [('s%d' % i, rng.choice([4, 8, 12, 16])) for i in range(1, nsrv + 1)]
    groups = [('proid.g', rng.randint(1, 3))] if rng.random() < 0.4 else []
    server_traits = {s: ['gpu'] for s, _ in servers if rng.random() < 0.3}
    names = ['proid.a%d#%010d' % (i, i) for i in range(1, 8)]
    apps = []
    for a in names[:rng.randint(1, 5)]:
        apps.append((a, app(rng.choice([2, 3, 5, 6]), rng.choice([1, 10, 50, 100]),
                            lease=rng.choice([None, None, '1d']), group=('proid.g' if groups and rng.random() < 0.5 else None),
                            once=rng.random() < 0.1, traits=(['gpu'] if server_traits and rng.random() < 0.3 else None))))
    ops = []
    free = [a for a in names if a not in [x[0] for x in apps]]
    for _ in range(rng.randint(2, 8)):
        c = rng.random()
        s = rng.choice(servers)[0]
        if c < 0.18 and free:
            a = free.pop(0)
            ops.append(['schedule', a, app(rng.choice([2, 3, 5, 6]), rng.choice([1, 10, 50, 100]),
                                          group=('proid.g' if groups and rng.random() < 0.5 else None),
                                          traits=(['gpu'] if server_traits and rng.random() < 0.4 else None))])
        elif c < 0.28 and apps:
            ops.append(['delete', rng.choice(apps)[0]])
        elif c < 0.40:
            ops.append(['down', s])
        elif c < 0.50:
            ops.append(['up', s])
        elif c < 0.54:
            if known_ok('resize'):
                ops.append(['resize', s, rng.choice([4, 8, 12, 16])])
        elif c < 0.58:
            ops.append(['resize_quiet', s, rng.choice([4, 8, 12, 16])])
            ops.append(['restart', rng.choice([None, None, 0, 1, 2])])
        elif c < 0.62 and case_allows_rm():
            ops.append(['rmserver', s])
        elif c < 0.65:
            ops.append(['inject_dup', rng.randint(0, 5), rng.randint(0, 3)])
            ops.append(['restart', rng.choice([None, None, 0, 1, 2])])
        elif c < 0.68 and groups:
            ops.append(['group', 'proid.g', rng.randint(1, 3)])
        elif c < 0.90:
            ops.append(['cycle', rng.choice([None, None, 0, 1, 2, 3, 4])])
        else:
            ops.append(['restart', rng.choice([None, None, 0, 1, 2, 3])])
    ops.append(['cycle', None])
    return {'servers': servers, 'server_traits': server_traits, 'groups': groups, 'apps': apps, 'ops': ops}


def case_allows_rm():
    return known_ok('rmserver')


def known_ok(kind):
    """Events that trigger the listed known findings (known_findings.json: a server record deleted at run time leaves
    its entries behind; a server reloaded at run time re-places its instances with a new expiry without refreshing the
    entries) are left out of the random histories unless asked for with VERIF_C09_KNOWN=1."""
    if os.environ.get('VERIF_C09_KNOWN', '0') == '1':
        return True
    if kind == 'rmserver':
        return False
    if kind == 'resize':
        return PROP not in ('C09',)
    return True


def main(argv):
    if argv[0] == '--input':
        case = json.loads(argv[1])
        errs = run(case)
        print('case:', json.dumps(case)[:2500])
        print('result:', errs or 'agrees with the property')
        return 1 if errs else 0
    rng = random.Random(int(os.environ.get('VERIF_SEED', '0')))
    if argv[0] == '--bounded':
        n = int(argv[1])
        for _ in range(n):
            case = rand_case(rng)
            errs = run(case)
            if errs:
                print('FAILING-INPUT ' + json.dumps(dict(case, why=errs[:3])))
                return 0
        print('checked %d histories, none fails' % n)
        return 0
    t0 = time.time()
    n = 0
    while time.time() - t0 < float(os.environ.get('VERIF_REPLAY_BUDGET', '40')):
        n += 1
        case = rand_case(rng)
        errs = run(case)
        if errs:
            print('FAILING-INPUT ' + json.dumps(dict(case, why=errs[:3])))
            return 0
    print('searched %d histories, none fails' % n)
    return 0


if __name__ == '__main__':
    sys.exit(main(sys.argv[1:]))
