"""Replay / failing-history search for C18 on the real archiving code (treadmill.trace.app.zk, treadmill.trace._zk) over
an in-memory ZooKeeper fake with real sqlite snapshots.

Oracle (from the statement, independent of the contracts): after every archiving call - and in the state left behind when
the call is cut at any ZooKeeper write (crash) or when one write fails (fault) - every trace event / finished record that
existed beforehand is still live (unchanged) or is found in a live snapshot (sqlite rows opened and compared; events also
through the real download_batch); only events of unscheduled instances older than the expiry, and only finished records
older than the expiry, leave the live tree; pruning keeps exactly the newest max_count snapshots.
"""
import json
import logging
import os
import random
import sqlite3
import sys
import tempfile
import time
import zlib

logging.disable(logging.CRITICAL)

import kazoo.exceptions                    # noqa: E402
from treadmill import zknamespace as z     # noqa: E402
from treadmill.trace import _zk            # noqa: E402
from treadmill.trace.app import zk as azk  # noqa: E402


class Crash(BaseException):
    """The archiver process dies at a ZooKeeper write."""


class Meta:
    def __init__(self, mtime):
        self.last_modified = mtime
        self.mtime = mtime * 1000


class FakeZk:
    def __init__(self, clock):
        self.nodes = {}            # path -> [payload bytes or None, mtime seconds]
        self.seq = {}
        self.clock = clock
        self.writes = 0
        self.fail_at = None        # (k, 'crash' | 'fault'): the k-th write (0-based) of the current call
        for p in ('/scheduled', '/trace', '/trace.history', '/finished', '/finished.history'):
            self.nodes[p] = [None, 0.0]

    # ---- fault injection
    def _write(self):
        k = self.writes
        self.writes += 1
        if self.fail_at is not None and self.fail_at[0] == k:
            kind = self.fail_at[1]
            self.fail_at = None
            if kind == 'crash':
                raise Crash()
            raise kazoo.exceptions.NoAuthError()      # a kazoo failure that with_retry does not retry: the call fails

    # ---- kazoo API used by the code under test
    def make_servers_acl(self):
        return 'acl'

    def make_default_acl(self, acl):
        return acl

    def create(self, path, value=b'', acl=None, ephemeral=False, sequence=False, makepath=False):
        self._write()
        if sequence:
            n = self.seq.get(path, 0)
            self.seq[path] = n + 1
            path = '%s%010d' % (path, n)
        if path in self.nodes:
            raise kazoo.exceptions.NodeExistsError()
        self.nodes[path] = [value, self.clock[0]]
        return path

    def set(self, path, value, version=-1):
        self._write()
        if path not in self.nodes:
            raise kazoo.exceptions.NoNodeError()
        self.nodes[path] = [value, self.clock[0]]

    def set_acls(self, path, acls):
        pass

    def get(self, path, watch=None):
        if path not in self.nodes:
            raise kazoo.exceptions.NoNodeError()
        value, mtime = self.nodes[path]
        return value, Meta(mtime)

    def exists(self, path, watch=None):
        return Meta(self.nodes[path][1]) if path in self.nodes else None

    def delete(self, path, version=-1, recursive=False):
        self._write()
        if path not in self.nodes:
            raise kazoo.exceptions.NoNodeError()
        del self.nodes[path]

    def get_children(self, path, watch=None):
        if path not in self.nodes:
            raise kazoo.exceptions.NoNodeError()
        pre = path.rstrip('/') + '/'
        return [p[len(pre):] for p in self.nodes if p.startswith(pre) and '/' not in p[len(pre):]]


class FakeTime:
    def __init__(self, clock):
        self.clock = clock

    def time(self):
        return self.clock[0]


def snapshot_rows(zk, hist, table):
    """All rows of all live snapshots under `hist` (path, data, name), read with sqlite from the stored bytes."""
    rows = []
    for n in zk.get_children(hist):
        data = zk.nodes[hist + '/' + n][0]
        with tempfile.NamedTemporaryFile(delete=False) as f:
            f.write(zlib.decompress(data))
        conn = sqlite3.connect(f.name)
        try:
            rows += [(r[0], r[1], r[2], n) for r in conn.execute('SELECT path, data, name FROM %s' % table)]
        finally:
            conn.close()
            os.unlink(f.name)
    return rows


class _Handler:
    def event_object(self):
        import threading
        return threading.Event()


class _Loop(azk.AppTraceLoop):
    """The real trace loop (its _process_db_events / _process_events); only the decoding of one event is replaced by a
    recorder, so that arbitrary event payloads can be used."""

    def __init__(self, zkclient, name):
        zkclient.handler = _Handler()
        super(_Loop, self).__init__(zkclient, name, None)
        self.seen = []

    def _process_event(self, object_name, timestamp, source, event_type, event_data, ctx):
        self.seen.append(','.join([object_name, timestamp, source, event_type, event_data]))


def retrievable(zk, inst):
    loop = _Loop(zk, inst)
    loop._process_db_events(None)
    return set(loop.seen)


def live_state(zk):
    ev = {p: tuple(v) for p, v in zk.nodes.items() if p.startswith('/trace/') and p.count('/') == 3}
    fin = {p: tuple(v) for p, v in zk.nodes.items() if p.startswith('/finished/')}
    sched = set(zk.get_children('/scheduled'))
    return ev, fin, sched


def check_after(zk, before, op, now, errs, tag):
    ev0, fin0, sched0 = before
    kind = op[0]
    trows = snapshot_rows(zk, '/trace.history', 'trace')
    frows = snapshot_rows(zk, '/finished.history', 'finished')
    tpaths = {r[0]: r for r in trows}
    cache_loop = {}
    for p, v in ev0.items():
        if p in zk.nodes:
            continue
        name = p.rsplit('/', 1)[1]
        if kind in ('prune_trace_history',):
            continue
        r = tpaths.get(p)
        if r is None or r[2] != name:
            errs.append('%s%s: event %s is neither live nor in a snapshot' % (op, tag, p))
            continue
        inst = name.split(',')[0]
        got = _zk.download_batch(zk, '/trace.history/' + r[3], 'trace', inst)
        if name not in got:
            errs.append('%s%s: event %s not retrievable with download_batch' % (op, tag, p))
        if inst not in cache_loop:
            cache_loop[inst] = retrievable(zk, inst)
        if name not in cache_loop[inst]:
            errs.append('%s%s: archived event %s is not delivered by AppTraceLoop._process_db_events' % (op, tag, p))
        ts = float(name.split(',')[1])
        if kind == 'cleanup_trace':
            exp = op[2]
            if inst in sched0:
                errs.append('%s%s: event %s of a scheduled instance was archived' % (op, tag, p))
            if not ts < now - exp:
                errs.append('%s%s: event %s younger than the expiry was archived' % (op, tag, p))
        else:
            errs.append('%s%s: removed event %s' % (op, tag, p))
    for p, (data, mtime) in fin0.items():
        if p in zk.nodes:
            if kind != 'publish' and tuple(zk.nodes[p]) != (data, mtime):
                errs.append('%s%s: finished record %s changed' % (op, tag, p))
            continue
        if kind == 'prune_finished_history':
            continue
        text = data.decode() if data is not None else None
        if not any(r[0] == p and r[1] == text for r in frows):
            errs.append('%s%s: finished record %s (as it was) is neither live nor in a snapshot' % (op, tag, p))
        if kind == 'cleanup_finished':
            if not mtime < now - op[2]:
                errs.append('%s%s: finished record %s younger than the expiry was archived' % (op, tag, p))
        else:
            errs.append('%s%s: removed finished record %s' % (op, tag, p))


def run(case):
    clock = [1000000.0]
    zk = FakeZk(clock)
    azk.time = FakeTime(clock)
    errs = []
    for shard, name in case['events']:
        zk.nodes.setdefault('/trace/' + shard, [None, 0.0])
        zk.nodes['/trace/%s/%s' % (shard, name)] = [None, 0.0]
    for inst in case['scheduled']:
        zk.nodes['/scheduled/' + inst] = [b'{}', 0.0]
    for inst, age, text in case['finished']:
        zk.nodes['/finished/' + inst] = [text.encode() if text is not None else None, clock[0] - age]
    for op in case['ops']:
        op = list(op)
        kind = op[0]
        if kind == 'advance':
            clock[0] += op[1]
            continue
        before = live_state(zk)
        hist_before = {h: sorted(zk.get_children(h)) for h in ('/trace.history', '/finished.history')}
        zk.writes = 0
        fail = op[-1] if kind in ('cleanup_trace', 'cleanup_finished') else None
        zk.fail_at = tuple(fail) if fail else None
        tag = ' (cut at write %s: %s)' % (fail[0], fail[1]) if fail else ''
        try:
            if kind == 'cleanup_trace':
                azk.cleanup_trace(zk, op[1], op[2])
            elif kind == 'cleanup_finished':
                azk.cleanup_finished(zk, op[1], op[2])
            elif kind == 'publish':
                zk.nodes['/finished/' + op[1]] = [op[2].encode(), clock[0]]     # what publish() does on a terminal event
            elif kind == 'prune_trace_history':
                azk.cleanup_trace_history(zk, op[1])
            elif kind == 'prune_finished_history':
                azk.cleanup_finished_history(zk, op[1])
        except Crash:
            pass
        except kazoo.exceptions.KazooException:
            pass
        except Exception as ex:         # noqa
            errs.append('%s raised %r' % (op, ex))
            break
        zk.fail_at = None
        check_after(zk, before, op, clock[0], errs, tag)
        if kind in ('prune_trace_history', 'prune_finished_history'):
            h = '/trace.history' if kind == 'prune_trace_history' else '/finished.history'
            want = hist_before[h][max(0, len(hist_before[h]) - op[1]):]
            if sorted(zk.get_children(h)) != want:
                errs.append('%s: kept %s, the newest are %s' % (op, sorted(zk.get_children(h)), want))
        if errs:
            break
    return errs


def rand_case(rng):
    now = 1000000.0
    insts = ['proid.app#%010d' % i for i in rng.sample([0, 1, 2, 3, 7, 9, 10, 11, 15, 16, 42, 255, 256, 266, 300, 1000], rng.randint(2, 6))]
    events = []
    for inst in insts:
        shard = '%04X' % (int(inst.split('#')[1]) % 256)
        for k in range(rng.randint(0, 5)):
            age = rng.choice([10, 50, 100, 290, 300, 310, 500, 1000, 5000]) + rng.random()
            events.append((shard, '%s,%s,host%d,%s,%s' % (inst, now - age, k % 2, rng.choice(['scheduled', 'pending', 'finished']),
                                                          rng.choice(['x', '0.0', 'a:b']))))
    scheduled = [i for i in insts if rng.random() < 0.4]
    finished = [(i, rng.choice([10, 200, 299, 301, 400, 2000]) + rng.random(), rng.choice(['{"state": "finished"}', 'killed/oom', None]))
                for i in insts if rng.random() < 0.7]
    ops = []
    for _ in range(rng.randint(1, 6)):
        c = rng.random()
        if c < 0.35:
            fail = [rng.randint(0, 8), rng.choice(['crash', 'fault'])] if rng.random() < 0.6 else None
            ops.append(['cleanup_trace', rng.randint(1, 4), rng.choice([100, 300, 1000]), fail])
        elif c < 0.65:
            fail = [rng.randint(0, 6), rng.choice(['crash', 'fault'])] if rng.random() < 0.6 else None
            ops.append(['cleanup_finished', rng.randint(1, 3), rng.choice([100, 300, 1000]), fail])
        elif c < 0.75:
            ops.append(['publish', rng.choice(insts), rng.choice(['finished 1.0', 'aborted x'])])
        elif c < 0.85:
            ops.append(['advance', rng.choice([50, 300, 1500])])
        elif c < 0.93:
            ops.append(['prune_trace_history', rng.randint(0, 2)])
        else:
            ops.append(['prune_finished_history', rng.randint(0, 2)])
    return {'events': events, 'scheduled': scheduled, 'finished': finished, 'ops': ops}


def main(argv):
    if argv[0] == '--input':
        case = json.loads(argv[1])
        errs = run(case)
        print('case:', json.dumps(case)[:1500])
        print('result:', errs or 'agrees with the property')
        return 1 if errs else 0
    rng = random.Random(int(os.environ.get('VERIF_SEED', '0')))
    if argv[0] == '--bounded':
        n = int(argv[1])
        for _ in range(n):
            case = rand_case(rng)
            errs = run(case)
            if errs:
                print('FAILING-INPUT ' + json.dumps(dict(case, why=errs[:3])))
                return 0
        print('checked %d histories, none fails' % n)
        return 0
    t0 = time.time()
    n = 0
    while time.time() - t0 < float(os.environ.get('VERIF_REPLAY_BUDGET', '40')):
        n += 1
        case = rand_case(rng)
        errs = run(case)
        if errs:
            print('FAILING-INPUT ' + json.dumps(dict(case, why=errs[:3])))
            return 0
    print('searched %d histories, none fails' % n)
    return 0


if __name__ == '__main__':
    sys.exit(main(sys.argv[1:]))
