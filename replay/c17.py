"""Replay / failing-sequence search for C17 on the real PresenceResourceService with a fake ZooKeeper shared by two
sessions.

Oracle from the statement: a request of one service never modifies or deletes a node that exists and is owned by
another session; nodes it creates are ephemeral nodes of its own session; removing a container's presence deletes
only nodes registered for that container (a newer container of the same instance keeps its nodes).
"""
import json
import logging
import os
import random
import sys
import time

logging.disable(logging.CRITICAL)

import kazoo.client            # noqa: E402
import kazoo.exceptions        # noqa: E402
from treadmill import context  # noqa: E402
from treadmill.services import presence_service as ps   # noqa: E402


class Meta:
    def __init__(self, owner):
        self.owner_session_id = owner
        self.ephemeralOwner = owner


class Store:
    def __init__(self):
        self.nodes = {}          # path -> [payload, owner session (0 persistent)]
        self.log = []            # (session, op, path)


class FakeZk:
    """One client = one session on the shared store."""

    def __init__(self, store, session):
        self.store = store
        self.client_id = (session, b'pwd')

    def make_servers_acl(self):
        return 'acl'

    def make_default_acl(self, acl):
        return acl

    def _pre(self, what, path):
        hook = getattr(self.store, 'pre_op', None)
        if hook is not None:
            hook(self, what, path)
        if what in ('set', 'delete') and path in self.store.nodes:
            owner = self.store.nodes[path][1]
            if owner not in (0, self.client_id[0]):
                self.store.__dict__.setdefault('foreign_writes', []).append(
                    'session %s did %s on %s while it was owned by session %s' % (self.client_id[0], what, path, owner))

    def set_acls(self, path, acls, version=-1):
        return None

    def create(self, path, value=b'', acl=None, ephemeral=False, sequence=False, makepath=False):
        self._pre('create', path)
        if path in self.store.nodes:
            raise kazoo.exceptions.NodeExistsError()
        self.store.nodes[path] = [value, self.client_id[0] if ephemeral else 0]
        self.store.log.append((self.client_id[0], 'create' if ephemeral else 'create-persistent', path))
        return path

    def get(self, path, watch=None):
        self._pre('get', path)
        if path not in self.store.nodes:
            raise kazoo.exceptions.NoNodeError()
        value, owner = self.store.nodes[path]
        return value, Meta(owner)

    def set(self, path, value, version=-1):
        self._pre('set', path)
        if path not in self.store.nodes:
            raise kazoo.exceptions.NoNodeError()
        self.store.nodes[path][0] = value
        self.store.log.append((self.client_id[0], 'set', path))

    def delete(self, path, version=-1, recursive=False):
        self._pre('delete', path)
        if path not in self.store.nodes:
            raise kazoo.exceptions.NoNodeError()
        del self.store.nodes[path]
        self.store.log.append((self.client_id[0], 'delete', path))

    def get_children(self, path, watch=None):
        if path not in self.store.nodes:
            raise kazoo.exceptions.NoNodeError()
        pre = path.rstrip('/') + '/'
        return [p[len(pre):] for p in self.store.nodes if p.startswith(pre) and '/' not in p[len(pre):]]

    def exists(self, path, watch=None):
        return Meta(self.store.nodes[path][1]) if path in self.store.nodes else None

    def DataWatch(self, path):       # noqa: N802
        return lambda func: func


RETRIED = []


class Svc(ps.PresenceResourceService):
    """The real service class with its two seams replaced: the process-wide client and the request re-queue."""
    zkclient = property(lambda self: self._zk)

    def retry_request(self, rsrc_id):
        RETRIED.append(rsrc_id)


def make_service(store, session, host):
    svc = Svc.__new__(Svc)
    svc.hostname = host
    import collections
    svc.presence = collections.defaultdict(dict)
    svc._zk = FakeZk(store, session)
    return svc


def run(seq):
    store = Store()
    sessions = {'A': 101, 'B': 202}
    svcs = {k: make_service(store, v, 'host' + k) for k, v in sessions.items()}
    errs = []
    truth = {}               # (service, path) -> container the node was last registered for (independent ground truth)
    for op in seq:
        kind, who = op[0], op[1]
        if kind == 'expire':
            # session expiry: the session's ephemeral nodes vanish and it gets a new session id
            old = sessions[who]
            for p in [p for p, (_v, o) in store.nodes.items() if o == old]:
                del store.nodes[p]
            sessions[who] = old + 1
            svcs[who]._zk.client_id = (old + 1, b'pwd')
            continue
        svc = svcs[who]
        me = svc._zk.client_id[0]
        before = {p: tuple(v) for p, v in store.nodes.items()}
        before_presence = {a: dict(m) for a, m in svc.presence.items()}
        mark = len(store.log)
        try:
            if kind == 'create':
                _, _, rsrc_id, data = op
                svc.on_create_request(rsrc_id, data)
            else:
                svc.on_delete_request(op[2])
        except Exception as ex:    # noqa
            errs.append('%r raised %r' % (op, ex))
            break
        for sess, what, path in store.log[mark:]:
            if path in before and before[path][1] != me and what in ('set', 'delete'):
                errs.append('%s: session %s did %s on %s owned by session %s' % (op, sess, what, path, before[path][1]))
            if what == 'create-persistent':
                errs.append('%s: %s created as a persistent node' % (op, path))
        app = ps.appcfg.app_name(op[2])
        if kind == 'create' and not errs:
            # ground truth, independent of the service's own bookkeeping: the nodes a create request (re)registered
            # belong to that container from now on
            touched = {path for sess, what, path in store.log[mark:] if what in ('create', 'set')}
            data = op[3]
            wanted = [ps.z.path.running(app)]
            for e in data.get('endpoints', []):
                wanted.append(ps.z.path.endpoint(app, e.get('proto', 'tcp'), e.get('name', str(e['port']))))
            if data.get('identity_group'):
                wanted.append(ps.z.path.identity_group(data['identity_group'], str(data.get('identity'))))
            for p in wanted:
                if p in store.nodes and store.nodes[p][1] == me and p in svc.presence.get(app, {}):
                    truth[(who, p)] = op[2]
        if kind == 'delete':
            mine = {p for (w, p), r in truth.items() if w == who and r == op[2]}
            for (w, p) in [k for k, r in truth.items() if k[0] == who and r == op[2]]:
                del truth[(w, p)]
            for sess, what, path in store.log[mark:]:
                if what == 'delete' and path not in mine:
                    errs.append('%s: removed %s which was not registered for this container' % (op, path))
            for a, m in before_presence.items():
                for p, r in m.items():
                    if not (a == app and r == op[2]) and svc.presence.get(a, {}).get(p) != r:
                        errs.append('%s: forgot %s registered for %s' % (op, p, r))
        if errs:
            break
    return errs


def interleavings():
    """Bounded, exhaustive over a small space: ONE create request of session A while session B, which holds the
    instance's running node, acts between A's ZooKeeper operations (B removes its node - clean-up or session expiry - and
    registers the next container).  B's two steps are inserted before the i-th and the j-th operation of A, for all
    i <= j.  Oracle: A never sets or deletes a node that is, at that moment, owned by another session."""
    cont = 'proid.app-0000000001-aaaaaaaaaaaaa'
    app = ps.appcfg.app_name(cont)
    path = ps.z.path.running(app)
    found = []
    for expire in (False, True):
        for i in range(0, 7):
            for j in range(i, 7):
                store = Store()
                sess = {'A': 101, 'B': 202}
                svc = make_service(store, sess['A'], 'hostA')
                store.nodes[path] = [b'hostB', sess['B']]
                state = {'n': 0, 'busy': False}

                def hook(client, what, p, state=state, store=store, i=i, j=j, expire=expire):
                    if client.client_id[0] != 101 or state['busy']:
                        return
                    state['busy'] = True
                    k = state['n']
                    state['n'] += 1
                    if k == i:
                        store.nodes.pop(path, None)                       # B's node goes away
                    if k == j:
                        owner = 203 if expire else 202
                        if path not in store.nodes:
                            store.nodes[path] = [b'hostB-next', owner]   # B registers the next container
                    state['busy'] = False
                store.pre_op = hook
                try:
                    svc.on_create_request(cont, {'endpoints': []})
                except Exception as ex:    # noqa
                    found.append('interleaving i=%d j=%d expire=%s: raised %r' % (i, j, expire, ex))
                    continue
                for w in getattr(store, 'foreign_writes', []):
                    found.append('interleaving i=%d j=%d expire=%s: %s' % (i, j, expire, w))
                if path in store.nodes and store.nodes[path][1] not in (0, 101) and store.nodes[path][0] != b'hostB-next' \
                        and store.nodes[path][0] != b'hostB':
                    found.append('interleaving i=%d j=%d expire=%s: node of session %s now holds %r'
                                 % (i, j, expire, store.nodes[path][1], store.nodes[path][0]))
    return found


def rand_seq(rng):
    seq = []
    conts = ['proid.app-0000000001-aaaaaaaaaaaaa', 'proid.app-0000000001-bbbbbbbbbbbbb',
             'proid.app-0000000002-ccccccccccccc']
    for _ in range(rng.randint(3, 10)):
        c = rng.random()
        who = rng.choice(['A', 'B'])
        cont = rng.choice(conts)
        if c < 0.5:
            data = {'endpoints': [{'name': rng.choice(['http', 'ssh']), 'port': 80, 'real_port': rng.choice([5000, 5001]),
                                   'proto': 'tcp'} for _ in range(rng.randint(0, 2))]}
            if rng.random() < 0.5:
                # identities are unique per instance (C05): successive containers of one instance share theirs
                data['identity_group'] = 'proid.grp'
                data['identity'] = int(cont.split('-')[1])
            seq.append(('create', who, cont, data))
        elif c < 0.85:
            seq.append(('delete', who, cont))
        else:
            seq.append(('expire', who))
    return seq


def main(argv):
    if argv[0] == '--input':
        case = json.loads(argv[1])
        errs = interleavings() if case.get('interleaving') else run([tuple(op) for op in case['sequence']])
        print('sequence:', json.dumps(case['sequence']))
        print('result:', errs or 'agrees with the property')
        return 1 if errs else 0
    rng = random.Random(int(os.environ.get('VERIF_SEED', '0')))
    errs = interleavings()
    if errs:
        print('FAILING-INPUT ' + json.dumps({'sequence': [], 'interleaving': True, 'why': errs[:3]}))
        return 0
    t0 = time.time()
    n = 0
    n_max = int(argv[1]) if argv[0] == '--bounded' else 10 ** 9
    budget = 1e9 if argv[0] == '--bounded' else float(os.environ.get('VERIF_REPLAY_BUDGET', '30'))
    while n < n_max and time.time() - t0 < budget:
        n += 1
        seq = rand_seq(rng)
        errs = run(seq)
        if errs:
            print('FAILING-INPUT ' + json.dumps({'sequence': seq, 'why': errs[:3]}))
            return 0
    print('searched %d sequences, none fails' % n)
    return 0


if __name__ == '__main__':
    sys.exit(main(sys.argv[1:]))
