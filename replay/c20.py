"""Replay / failing-input search for C20 against the real treadmill.sproc.appmonitor.reevaluate.

Oracle (from the property statement, per evaluation): a create request asks for n with
1 <= n <= target - current and n <= floor(refilled tokens); a delete request lists exactly the
surplus, oldest first (fifo / default) or newest first (lifo); never both for one application;
suspended or absent monitors cause no request; tokens stay within [0, 2*target].
"""
import json
import logging
import math
import os
import random
import sys
import time as _time

_REAL_TIME = _time.time
logging.disable(logging.CRITICAL)

from treadmill import restclient
from treadmill.sproc import appmonitor as A


class Fake:
    def __init__(self):
        self.calls = []
        self.fail = None

    def post(self, api, url, payload=None, headers=None):
        self.calls.append((url, payload))
        if self.fail == 'notfound':
            raise restclient.NotFoundError('x')
        if self.fail == 'other':
            raise Exception('boom')
        return {}


def run(case):
    fake = Fake()
    fake.fail = case.get('fail')
    A.restclient.post = fake.post
    A.zkutils.update = lambda *a, **k: None
    now = [case['now']]
    A.time.time = lambda: now[0]
    state = {'scheduled': {k: list(v) for k, v in case['scheduled'].items()},
             'monitors': {k: dict(v) for k, v in case['monitors'].items()},
             'suspended': dict(case['suspended'])}
    errs = []
    try:
        A.reevaluate('http://x', lambda *a, **k: None, state, None, dict(case.get('last_waited', {})))
    except Exception as ex:   # noqa
        errs.append('reevaluate raised %r' % (ex,))
    finally:
        A.time.time = _REAL_TIME
    per_app = {}
    for url, payload in fake.calls:
        if url.startswith('/instance/_bulk/delete'):
            inst = payload['instances']
            name = inst[0].rpartition('#')[0] if inst else None
            per_app.setdefault(name, []).append(('delete', inst))
        else:
            name, _, cnt = url[len('/instance/'):].partition('?count=')
            per_app.setdefault(name, []).append(('create', int(cnt)))
    for name, acts in per_app.items():
        if len(acts) > 1:
            errs.append('%s: more than one request in one evaluation: %r' % (name, acts))
        conf = case['monitors'].get(name)
        if conf is None:
            errs.append('%s: request for a monitor that does not exist' % name)
            continue
        if case['suspended'].get(name, 0) > case['now']:
            errs.append('%s: request although suspended' % name)
        cur = case['scheduled'].get(name, [])
        kind, arg = acts[0]
        refilled = min(conf['available'] + conf['rate'] * (case['now'] - conf['last_update']), 2 * conf['count']) \
            if conf['available'] < 2 * conf['count'] else conf['available']
        if kind == 'create':
            if not (1 <= arg <= conf['count'] - len(cur)):
                errs.append('%s: asked for %d, missing %d' % (name, arg, conf['count'] - len(cur)))
            if arg > math.floor(refilled):
                errs.append('%s: asked for %d with %.2f tokens' % (name, arg, refilled))
        else:
            surplus = len(cur) - conf['count']
            want = cur[:surplus] if conf.get('policy') in (None, 'fifo') else cur[-surplus:]
            if surplus <= 0 or arg != want:
                errs.append('%s: deleted %r, expected %r' % (name, arg, want))
    for name, conf in state['monitors'].items():
        if not (0 <= conf['available'] <= 2 * conf['count'] + 1e-9):
            errs.append('%s: tokens %.2f outside [0, %d]' % (name, conf['available'], 2 * conf['count']))
    return errs


def rand_case(rng):
    mons, sched, susp = {}, {}, {}
    now = 10000.0
    for i in range(rng.randint(1, 3)):
        name = 'p.a%d' % i
        count = rng.choice([0, 1, 2, 3, 5])
        mons[name] = {'count': count, 'available': rng.choice([0.0, 0.4, 1.0, 2.0 * count, 1.7]) if count else 0.0,
                      'last_update': now - rng.choice([0, 10, 1800, 4000]), 'rate': 2.0 * count / 3600,
                      'policy': rng.choice([None, 'fifo', 'lifo'])}
        mons[name]['available'] = min(mons[name]['available'], 2.0 * count)
        n = rng.choice([0, 1, 2, 4, 6])
        sched[name] = ['%s#%010d' % (name, k) for k in range(n)]
        if rng.random() < 0.3:
            susp[name] = now + rng.choice([-5, 5, 300])
    if rng.random() < 0.3:
        susp['p.gone'] = now + 100
    return {'now': now, 'monitors': mons, 'scheduled': sched, 'suspended': susp,
            'fail': rng.choice([None, None, 'notfound', 'other'])}


def main(argv):
    if argv[0] == '--input':
        case = json.loads(argv[1])
        errs = run(case)
        print('input:', json.dumps(case))
        print('result:', errs or 'agrees with the property')
        return 1 if errs else 0
    rng = random.Random(int(os.environ.get('VERIF_SEED', '0')))
    t0 = _time.time()
    n = 0
    while _time.time() - t0 < float(os.environ.get('VERIF_REPLAY_BUDGET', '30')):
        n += 1
        case = rand_case(rng)
        errs = run(case)
        if errs:
            case['why'] = errs[:3]
            print('FAILING-INPUT ' + json.dumps(case))
            return 0
    print('searched %d cases, none fails' % n)
    return 0


if __name__ == '__main__':
    sys.exit(main(sys.argv[1:]))
