"""Replay / failing-sequence search for C16 on the real _run._unshare_network and _finish._cleanup_network with the real
RuleMgr and EndpointsMgr on temporary directories and a recording fake of the ip sets.

Oracle (from the statement, independent of the contracts): for random manifests (tcp/udp endpoints, infra endpoints,
ephemeral ports, passthrough hosts, vring on/off) and random interleavings of start / finish / repeated finish of up to three
containers, after a container's finish the rules directory, the endpoints directory and the ip sets hold exactly what the
other containers that are currently started put there (i.e. what was there before its start), and no entry of another
container changes at any step.
"""
import json
import logging
import os
import random
import shutil
import sys
import tempfile
import time

logging.disable(logging.CRITICAL)

from treadmill import endpoints as tm_endpoints   # noqa: E402
from treadmill import iptables                    # noqa: E402
from treadmill import newnet                      # noqa: E402
from treadmill import plugin_manager              # noqa: E402
from treadmill import rulefile                    # noqa: E402
from treadmill import services                    # noqa: E402
from treadmill import utils                       # noqa: E402
from treadmill.runtime.linux import _run, _finish  # noqa: E402

IPSETS = {}


def _add(target_set, ip):
    IPSETS.setdefault(target_set, set()).add(ip)


def _rm(target_set, ip):
    IPSETS.setdefault(target_set, set()).discard(ip)


def _no_plugin(*_a, **_k):
    raise Exception('no firewall plugin')


iptables.add_ip_set = _add
iptables.rm_ip_set = _rm
iptables.flush_cnt_conntrack_table = lambda *a, **k: None
newnet.create_newnet = lambda *a, **k: None
plugin_manager.load = _no_plugin
HOSTS = {'hosta': '10.9.0.1', 'hostb': '10.9.0.2', 'hostc': '10.9.0.1'}    # two names, one address
_run.socket.gethostbyname = lambda h: HOSTS[h]
_finish.socket.gethostbyname = lambda h: HOSTS[h]


class NetClient:
    def __init__(self):
        self.alloc = {}

    def get(self, name):
        if name not in self.alloc:
            raise services.ResourceServiceError('never allocated')
        return self.alloc[name]

    def delete(self, name):
        self.alloc[name] = None


class Env:
    def __init__(self, root):
        for d in ('rules', 'owners', 'endpoints', 'apps'):
            os.makedirs(os.path.join(root, d))
        self.rules = rulefile.RuleMgr(os.path.join(root, 'rules'), os.path.join(root, 'owners'))
        self.endpoints = tm_endpoints.EndpointsMgr(os.path.join(root, 'endpoints'))
        self.apps_dir = os.path.join(root, 'apps')


def snapshot(env):
    rules = {n: os.readlink(os.path.join(env.rules._base_path, n)) for n in os.listdir(env.rules._base_path)}
    eps = {n: os.readlink(os.path.join(env.endpoints._base_path, n)) for n in os.listdir(env.endpoints._base_path)}
    sets = {k: frozenset(v) for k, v in IPSETS.items() if v}
    return rules, eps, sets


def owner_of(link):
    return os.path.basename(link)


def manifest(k, m):
    app = {
        'name': 'proid.app%d#%010d' % (k, k + 1), 'uniqueid': 'uid%010d' % k, 'type': 'native',
        'endpoints': [dict(e) for e in m['endpoints']],
        'ephemeral_ports': {'tcp': list(m['eph_tcp']), 'udp': list(m['eph_udp'])},
        'network': {'vip': '192.168.%d.%d' % (k // 200, k % 200 + 1), 'external_ip': '172.16.0.1', 'veth': 'v%d' % k,
                    'gateway': '192.168.254.254'},
        'vring': ({'some': 'thing'} if m['vring'] else None),
        'shared_ip': m['shared_ip'],
    }
    if m['passthrough'] is not None:
        app['passthrough'] = list(m['passthrough'])
    return utils.to_obj(app)


def run(case):
    root = tempfile.mkdtemp(prefix='c16_')
    IPSETS.clear()
    errs = []
    try:
        env = Env(root)
        net = NetClient()
        apps = [manifest(k, m) for k, m in enumerate(case['manifests'])]
        started = {}       # k -> snapshot taken before its start
        for step, (what, k) in enumerate(case['ops']):
            app = apps[k]
            uname = _finish.appcfg.app_unique_name(app)
            before = snapshot(env)
            where = 'step %d %s container %d' % (step, what, k)
            try:
                if what == 'start':
                    if k in started:
                        continue
                    os.makedirs(os.path.join(env.apps_dir, uname), exist_ok=True)
                    open(os.path.join(env.rules._owner_path, uname), 'w').close()
                    net.alloc[uname] = {'vip': app.network.vip, 'external_ip': app.network.external_ip}
                    _run._unshare_network(env, os.path.join(env.apps_dir, uname), app)
                    started[k] = (before, set(started))
                else:
                    _finish._cleanup_network(env, os.path.join(env.apps_dir, uname), app, net)
            except OSError as ex:
                # a start may legitimately fail on an entry owned by another container (port clash); clean it up
                if what == 'start':
                    _finish._cleanup_network(env, os.path.join(env.apps_dir, uname), app, net)
                    continue
                errs.append('%s raised %r' % (where, ex))
                break
            after = snapshot(env)
            # no entry of another container changes, ever
            for name, (b, a) in (('rule file', (before[0], after[0])), ('endpoint spec', (before[1], after[1]))):
                for n, link in b.items():
                    if owner_of(link) != uname and a.get(n) != link:
                        errs.append('%s: %s %s of %s changed' % (where, name, n, owner_of(link)))
            if what == 'finish' and k in started:
                base, others_then = started.pop(k)
                # everything this container put on the host is gone: nothing of its own is left ...
                for name, cur in (('rule file', after[0]), ('endpoint spec', after[1])):
                    left = [n for n, link in cur.items() if owner_of(link) == uname]
                    if left:
                        errs.append('%s: %s left behind: %s' % (where, name, left[:3]))
                # ... and its ip-set entries are gone (entries are keyed by the container's own vip)
                for s, entries in after[2].items():
                    mine = [e for e in entries if e.split(',')[0] == app.network.vip]
                    if mine:
                        errs.append('%s: ip set %s still holds %s' % (where, s, mine[:3]))
                if not started and not others_then and after != base and not errs:
                    # nothing else is running: the host is exactly as it was before this container started
                    errs.append('%s: host state differs from the state before the start: %r vs %r' % (where, after, base))
            if errs:
                break
    finally:
        shutil.rmtree(root, ignore_errors=True)
    return errs


def rand_manifest(rng, k):
    eps = []
    for i in range(rng.randint(0, 3)):
        e = {'name': rng.choice(['http', 'ssh', 'ws']) + str(i), 'port': rng.choice([80, 8000, 8080]),
             'real_port': 40000 + 10 * k + i, 'proto': rng.choice(['tcp', 'udp'])}
        if rng.random() < 0.3:
            e['type'] = 'infra'
        eps.append(e)
    return {'endpoints': eps,
            'eph_tcp': [45000 + 10 * k + i for i in range(rng.randint(0, 2))],
            'eph_udp': [46000 + 10 * k + i for i in range(rng.randint(0, 2))],
            'passthrough': (None if rng.random() < 0.5 else rng.sample(['hosta', 'hostb', 'hostc'], rng.randint(0, 3))),
            'vring': rng.random() < 0.5, 'shared_ip': rng.random() < 0.5}


def rand_case(rng):
    n = rng.randint(1, 3)
    ops = []
    for _ in range(rng.randint(2, 8)):
        ops.append((rng.choice(['start', 'finish', 'finish']), rng.randrange(n)))
    for k in range(n):
        ops.append(('finish', k))
    return {'manifests': [rand_manifest(rng, k) for k in range(n)], 'ops': ops}


def main(argv):
    if argv[0] == '--input':
        case = json.loads(argv[1])
        case['ops'] = [tuple(o) for o in case['ops']]
        errs = run(case)
        print('case:', json.dumps(case)[:2000])
        print('result:', errs or 'agrees with the property')
        return 1 if errs else 0
    rng = random.Random(int(os.environ.get('VERIF_SEED', '0')))
    if argv[0] == '--bounded':
        n = int(argv[1])
        for _ in range(n):
            case = rand_case(rng)
            errs = run(case)
            if errs:
                print('FAILING-INPUT ' + json.dumps(dict(case, why=errs[:3])))
                return 0
        print('checked %d sequences, none fails' % n)
        return 0
    t0 = time.time()
    n = 0
    while time.time() - t0 < float(os.environ.get('VERIF_REPLAY_BUDGET', '40')):
        n += 1
        case = rand_case(rng)
        errs = run(case)
        if errs:
            print('FAILING-INPUT ' + json.dumps(dict(case, why=errs[:3])))
            return 0
    print('searched %d sequences, none fails' % n)
    return 0


if __name__ == '__main__':
    sys.exit(main(sys.argv[1:]))
