"""Replay / failing-input search for C12 on the real EventMgr._synchronize / _cache (temp cache directory, fake
ZooKeeper client).

Oracle from the statement: after a synchronisation the cache names no instance that is not placed here; every
placed instance whose placement node and manifest exist in ZooKeeper has a cache file; every file written by
the synchronisation holds the manifest merged with the placement data and the task id; a failure at any point
of the write leaves, under the instance's name, nothing or a complete manifest.
"""
import json
import logging
import os
import random
import shutil
import sys
import tempfile
import time
import types

logging.disable(logging.CRITICAL)

import kazoo.exceptions      # noqa: E402
import yaml as pyyaml        # noqa: E402
from treadmill import eventmgr   # noqa: E402

HOST = 'host1'


class Meta:
    def __init__(self, ctime):
        self.ctime = ctime


class FakeZk:
    def __init__(self, nodes):
        self.nodes = nodes          # path -> (python object or None, ctime ms)

    def get(self, path, watch=None):
        if path not in self.nodes:
            raise kazoo.exceptions.NoNodeError()
        obj, ctime = self.nodes[path]
        data = None if obj is None else json.dumps(obj).encode()
        return data, Meta(ctime)


def expected_manifest(case, app):
    man = dict(case['manifests'][app])
    man['task'] = app[app.index('#') + 1:]
    pl = case['placements'][app][0]
    if pl is not None:
        man.update(pl)
    return man


def run(case):
    root = tempfile.mkdtemp(prefix='c12_', dir=os.environ.get('TMPDIR', '/tmp'))
    errs = []
    try:
        cache = os.path.join(root, 'cache')
        os.mkdir(cache)
        now = time.time()
        for name, (content, age) in case['files'].items():
            with open(os.path.join(cache, name), 'w') as f:
                f.write(content)
        # ctime cannot be set: "older than the placement" is expressed through the placement's ctime instead
        nodes = {}
        for app, (pl, newer) in case['placements'].items():
            nodes['/placement/%s/%s' % (HOST, app)] = (pl, (now + 3600 if newer else now - 3600) * 1000.0)
        for app, man in case['manifests'].items():
            nodes['/scheduled/%s' % app] = (man, 0)
        zk = FakeZk(nodes)
        ev = eventmgr.EventMgr.__new__(eventmgr.EventMgr)
        ev.tm_env = types.SimpleNamespace(cache_dir=cache)
        ev._hostname = HOST
        before = {n: open(os.path.join(cache, n)).read() for n in os.listdir(cache)}
        real_dump = eventmgr.yaml.dump
        fail_app = case.get('fail_write')
        if fail_app is not None:
            def broken_dump(obj, stream=None, **kw):
                text = pyyaml.safe_dump(obj)
                stream.write(text[:max(1, len(text) // 2)])
                stream.flush()
                if obj.get('task') == fail_app[fail_app.index('#') + 1:]:
                    raise IOError('disk full')
                stream.write(text[len(text) // 2:])
            eventmgr.yaml.dump = broken_dump
        raised = None
        # what a reader (or a crash) sees at the moment a file is renamed into the cache: the source of every
        # os.replace is read at that instant (a buffered, unflushed temporary file shows up as a short read)
        real_replace = os.replace
        at_rename = {}

        def spy_replace(src, dst, **kw):
            try:
                with open(src) as f:
                    at_rename[os.path.basename(dst)] = f.read()
            except OSError:
                pass
            return real_replace(src, dst, **kw)
        os.replace = spy_replace
        try:
            ev._synchronize(zk, list(case['expected']), check_existing=case['check_existing'])
        except Exception as ex:     # noqa
            raised = ex
        finally:
            eventmgr.yaml.dump = real_dump
            os.replace = real_replace
        for n, text in at_rename.items():
            if n in case['expected'] and n in case['manifests'] and n in case['placements']:
                try:
                    good = pyyaml.safe_load(text) == expected_manifest(case, n)
                except Exception:       # noqa
                    good = False
                if not good:
                    errs.append('%s: at the moment of the rename the file holds %r (partial manifest visible to a '
                                'reader / after a crash)' % (n, text[:60]))
        after = {n: open(os.path.join(cache, n)).read() for n in os.listdir(cache)}
        if raised is not None and fail_app is None:
            errs.append('synchronisation raised %r' % (raised,))
        # atomicity: whatever happened, a file under an instance's name is complete (old or new content)
        for n, text in after.items():
            if n.startswith('.'):
                continue
            if n in case['expected'] and n in case['manifests'] and n in case['placements']:
                good = pyyaml.safe_load(text) == expected_manifest(case, n)
                if not good and text != before.get(n):
                    errs.append('%s holds a partial or wrong manifest: %r' % (n, text[:80]))
        if raised is None:
            for n in after:
                if not n.startswith('.') and n not in case['expected']:
                    errs.append('cache names %s which is not placed here' % n)
            for app in case['expected']:
                if app in case['placements'] and app in case['manifests'] and app not in after:
                    errs.append('%s is placed, has a manifest, but no cache file' % app)
            for app in case['expected']:
                if app not in after or app not in case['manifests'] or app not in case['placements']:
                    continue
                rewritten = app not in before or (case['check_existing'] and case['placements'][app][1])
                if rewritten and pyyaml.safe_load(after[app]) != expected_manifest(case, app):
                    errs.append('%s written by the synchronisation holds %r, expected %r'
                                % (app, after[app][:120], expected_manifest(case, app)))
                if not rewritten and after[app] != before[app]:
                    errs.append('%s was up to date but was rewritten' % app)
    finally:
        shutil.rmtree(root, ignore_errors=True)
    return errs


def rand_case(rng):
    apps = ['p.a#%010d' % i for i in range(1, 6)]
    expected = [a for a in apps if rng.random() < 0.6]
    files = {}
    for a in apps:
        if rng.random() < 0.5:
            files[a] = (pyyaml.safe_dump({'stale': True, 'task': 'x'}), 0)
    if rng.random() < 0.3:
        files['.ready'] = ('', 0)
    if rng.random() < 0.2:
        files['.p.a#0000000001-tmpabc'] = ('partial', 0)
    placements = {}
    manifests = {}
    for a in apps:
        if rng.random() < 0.85:
            placements[a] = (rng.choice([None, {'identity': 3}, {'identity': 0, 'identity_group': 'g'}, {'expires': 0},
                                         {'expires': 123.5, 'identity_group': 'g'},
                                         {'memory': 'overridden'}]), rng.random() < 0.5)
        if rng.random() < 0.85:
            manifests[a] = {'memory': '100M', 'cpu': '10%', 'name': a}
    case = {'expected': expected, 'files': files, 'placements': placements, 'manifests': manifests,
            'check_existing': rng.random() < 0.5}
    if expected and rng.random() < 0.3:
        case['fail_write'] = rng.choice(expected)
    return case


def main(argv):
    if argv[0] == '--input':
        case = json.loads(argv[1])
        case['placements'] = {k: tuple(v) for k, v in case['placements'].items()}
        case['files'] = {k: tuple(v) for k, v in case['files'].items()}
        errs = run(case)
        print('input:', json.dumps(case))
        print('result:', errs or 'agrees with the property')
        return 1 if errs else 0
    rng = random.Random(int(os.environ.get('VERIF_SEED', '0')))
    t0 = time.time()
    n = 0
    n_max = int(argv[1]) if argv[0] == '--bounded' else 10 ** 9
    budget = 1e9 if argv[0] == '--bounded' else float(os.environ.get('VERIF_REPLAY_BUDGET', '30'))
    while n < n_max and time.time() - t0 < budget:
        n += 1
        case = rand_case(rng)
        errs = run(case)
        if errs:
            case['why'] = errs[:3]
            print('FAILING-INPUT ' + json.dumps(case))
            return 0
    print('searched %d cases, none fails' % n)
    return 0


if __name__ == '__main__':
    sys.exit(main(sys.argv[1:]))
