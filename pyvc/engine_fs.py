"""Filesystem dependency contract (DESIGN 3.6): ghost state fs[dir][name] = (kind, link target).

kind: 0 absent, 1 regular file, 2 symbolic link, 3 directory.  Paths are (directory, name) pairs:
os.path.join(d, n) with a directory d and a name n without '/'.  A link target is kept as the path it
denotes (os.path.relpath(p, start) = p when the link lives in `start`).  Link following is one level
(targets are not links).  Only the errors below are modelled (ENOENT, EEXIST, EINVAL); other I/O errors
are assumed not to happen.
"""
import z3

import ops
from ops import SB, SI, lift
from core import (SVal, TupleVal, ExcVal, KName, KInt, KTuple, KList, KStr, CheckerError, fresh_name, fresh_val, I)

KPath = KTuple([KName, KName])
KPath.name = 'Path'
FS_KIND, FS_TDIR, FS_TNAME = ('$fs.kind', 0), ('$fs.tdir', 0), ('$fs.tname', 0)
FS_CONTENT = ('$fs.content', 0)      # content token of a regular file (an atom standing for its bytes)
AAR = z3.ArraySort(I, z3.RealSort())        # one directory row of creation times
FS_CTIME = ('$fs.ctime', 0)
AA = z3.ArraySort(I, I)
ENOENT, EEXIST, EINVAL = 2, 17, 22


class FsMixin:

    def fs_arr(self, heap, key):
        return self.H.get(heap, key, AA)

    def fs_get(self, heap, key, d, n):
        return z3.Select(z3.Select(self.fs_arr(heap, key), d), n)

    def fs_set(self, st, key, d, n, v):
        arr = self.fs_arr(st.heap, key)
        st.heap[key] = z3.Store(arr, d, z3.Store(z3.Select(arr, d), n, v))

    def as_path(self, st, p):
        from core import KOpt
        if isinstance(p, SVal) and isinstance(p.kind, KOpt) and p.kind.inner == KPath:
            p = SVal(KPath, p.t[1:])        # callers have tested `is None` / truthiness before
        if isinstance(p, SVal) and p.kind == KPath:
            return p.t[0], p.t[1]
        if isinstance(p, str) and p == '':
            return z3.IntVal(0), z3.IntVal(0)        # the empty path: names nothing (atoms of real names are > 0)
        if isinstance(p, TupleVal) and len(p.items) == 2:
            return lift(p.items[0], KName).z, lift(p.items[1], KName).z
        raise CheckerError('not a (dir, name) path: %r' % (p,))

    def oserror(self, st, code):
        # CPython raises the errno-specific subclass
        return ExcVal({ENOENT: 'FileNotFoundError', EEXIST: 'FileExistsError'}.get(code, 'OSError'), info={'errno': code})

    # ---- os.path
    def b_os_path_join(self, st, fr, args, kw):
        if len(args) > 2:
            return self.b_os_path_join(st, fr, [self.b_os_path_join(st, fr, args[:-1], kw), args[-1]], kw)
        d, n = args
        if isinstance(d, str) and d == '':
            d = SVal(KName, [z3.IntVal(0)])
        if isinstance(d, SVal) and d.kind == KPath:
            # a directory below a (dir, name) path: an atom that is a function of that path
            sub = z3.Function('fs_subdir', I, I, I)
            d = SVal(KName, [sub(d.t[0], d.t[1])])
        if isinstance(d, SVal) and d.kind == KStr and 'cp' in self.reg.ufuncs:
            # joining onto a ZooKeeper path (a string): the child-path function of the contract module
            return SVal(KStr, [self.reg.ufuncs['cp'][0](d.z, self.str_term(n))])
        return SVal(KPath, [self.coerce_to(st, d, KName).z, self.coerce_to(st, n, KName).z])

    def b_os_path_basename(self, st, fr, args, kw):
        if isinstance(args[0], SVal) and args[0].kind == KName:
            return args[0]          # a name holds no '/': it is its own base name
        if isinstance(args[0], str) and args[0] == '':
            return SVal(KName, [z3.IntVal(0)])
        d, n = self.as_path(st, args[0])
        return SVal(KName, [n])

    def b_os_path_dirname(self, st, fr, args, kw):
        d, n = self.as_path(st, args[0])
        return SVal(KName, [d])

    def b_os_path_relpath(self, st, fr, args, kw):
        return args[0]          # denotes the same file when resolved from `start`

    def b_os_path_realpath(self, st, fr, args, kw):
        return args[0]

    # ---- syscalls
    def fork_errno(self, st, cond_ok, on_ok, code):
        """cond_ok: z3 Bool; on_ok(st) -> value; else OSError(code)."""
        tt, ff = self.fork(st, cond_ok)
        outs = []
        if tt is not None:
            outs.append((tt, on_ok(tt)))
        if ff is not None:
            outs.append((ff, self.oserror(ff, code)))
        return outs

    def b_os_symlink(self, st, fr, args, kw):
        td, tn = self.as_path(st, args[0])
        d, n = self.as_path(st, args[1])
        free = self.fs_get(st.heap, FS_KIND, d, n) == 0

        def ok(s):
            self.fs_set(s, FS_KIND, d, n, z3.IntVal(2))
            self.fs_set(s, FS_TDIR, d, n, td)
            self.fs_set(s, FS_TNAME, d, n, tn)
            return None
        return self.fork_errno(st, free, ok, EEXIST)

    def b_os_readlink(self, st, fr, args, kw):
        d, n = self.as_path(st, args[0])
        kind = self.fs_get(st.heap, FS_KIND, d, n)
        outs = []
        t1, f1 = self.fork(st, kind != 0)
        if f1 is not None:
            outs.append((f1, self.oserror(f1, ENOENT)))
        if t1 is not None:
            t2, f2 = self.fork(t1, kind == 2)
            if f2 is not None:
                outs.append((f2, self.oserror(f2, EINVAL)))
            if t2 is not None:
                outs.append((t2, SVal(KPath, [self.fs_get(t2.heap, FS_TDIR, d, n), self.fs_get(t2.heap, FS_TNAME, d, n)])))
        return outs

    def b_os_unlink(self, st, fr, args, kw):
        d, n = self.as_path(st, args[0])
        present = self.fs_get(st.heap, FS_KIND, d, n) != 0

        def ok(s):
            self.fs_set(s, FS_KIND, d, n, z3.IntVal(0))
            return None
        return self.fork_errno(st, present, ok, ENOENT)

    def b_os_replace(self, st, fr, args, kw):
        """rename(2): the destination name takes over the source entry (replacing whatever it held), the source name
        is gone; ENOENT if the source does not exist.  One atomic step."""
        sd, sn = self.as_path(st, args[0])
        d, n = self.as_path(st, args[1])
        present = self.fs_get(st.heap, FS_KIND, sd, sn) != 0

        def ok(s):
            vals = [(key, self.fs_get(s.heap, key, sd, sn)) for key in (FS_KIND, FS_TDIR, FS_TNAME, FS_CONTENT)]
            self.fs_set(s, FS_KIND, sd, sn, z3.IntVal(0))
            for key, v in vals:
                self.fs_set(s, key, d, n, v)
            return None
        return self.fork_errno(st, present, ok, ENOENT)

    b_os_rename = b_os_replace

    def b_tempfile_mktemp(self, st, fr, args, kw):
        """tempfile.mktemp(prefix=, dir=): some name that does not exist in `dir` (hidden when the prefix starts with a
        dot and the contract module declares fs_hidden)."""
        d = self.coerce_to(st, kw['dir'], KName).z
        t = z3.Int(fresh_name('tmpname'))
        st.assume(t > 0)
        st.assume(self.fs_get(st.heap, FS_KIND, d, t) == 0)
        hidden = self.reg.ufuncs.get('fs_hidden')
        if hidden is not None and isinstance(kw.get('prefix'), str) and kw['prefix'].startswith('.'):
            st.assume(hidden[0](t))
        return SVal(KPath, [d, t])

    def b_os_path_islink(self, st, fr, args, kw):
        d, n = self.as_path(st, args[0])
        return SB(self.fs_get(st.heap, FS_KIND, d, n) == 2)

    def b_os_stat(self, st, fr, args, kw):
        """stat follows a symbolic link (one level)."""
        d, n = self.as_path(st, args[0])
        kind = self.fs_get(st.heap, FS_KIND, d, n)
        td, tn = self.fs_get(st.heap, FS_TDIR, d, n), self.fs_get(st.heap, FS_TNAME, d, n)
        resolves = z3.And(kind != 0, z3.Or(kind != 2, self.fs_get(st.heap, FS_KIND, td, tn) != 0))
        def ok(s):
            if 'OsStat' not in self.reg.classes:
                return SI(z3.Int(fresh_name('stat')))
            o = self.alloc(s, 'OsStat')
            from ops import SR
            self.write_field(s, o.z, 'OsStat', 'st_ctime', SR(self.fs_ctime_get(s.heap, d, n)))
            return o
        return self.fork_errno(st, resolves, ok, ENOENT)

    def b_os_path_exists(self, st, fr, args, kw):
        d, n = self.as_path(st, args[0])
        kind = self.fs_get(st.heap, FS_KIND, d, n)
        td, tn = self.fs_get(st.heap, FS_TDIR, d, n), self.fs_get(st.heap, FS_TNAME, d, n)
        return SB(z3.And(kind != 0, z3.Or(kind != 2, self.fs_get(st.heap, FS_KIND, td, tn) != 0)))

    def open_for_write(self, st, path):
        """`with open(path, 'w'): pass` on an absent name: creates an empty regular file."""
        d, n = self.as_path(st, path)
        kind = self.fs_get(st.heap, FS_KIND, d, n)
        self.fs_set(st, FS_KIND, d, n, z3.If(kind == 0, z3.IntVal(1), kind))

    def b_os_listdir(self, st, fr, args, kw):
        d = self.coerce_to(st, args[0], KName).z
        row = z3.Select(self.fs_arr(st.heap, FS_KIND), d)
        # the set of names present, as an arbitrary-order duplicate-free list
        from core import KSet
        dom = z3.Const(fresh_name('lsdom'), z3.ArraySort(I, z3.BoolSort()))
        k = z3.Int(fresh_name('k'))
        st.assume(z3.ForAll([k], z3.Select(dom, k) == z3.And(k > 0, z3.Select(row, k) != 0), patterns=[z3.Select(dom, k)]))
        return self.snapshot_keys(st, SVal(KSet(KName), [dom]))

    # ---- C12: glob, stat times, atomic writes with content
    def fs_ctime_get(self, heap, d, n):
        return z3.Select(z3.Select(self.H.get(heap, FS_CTIME, AAR), d), n)

    def b_glob_glob(self, st, fr, args, kw):
        """glob.glob(os.path.join(d, '*')): the paths of the names present in d that do not start with a dot."""
        d, pat = self.as_path(st, args[0])
        star = lift('*', KName).z
        gm = self.reg.ufuncs.get('glob_match')
        if not pat.eq(star) and gm is None:
            raise CheckerError('glob pattern other than <dir>/*')
        hidden = self.reg.ufuncs.get('fs_hidden')
        row = z3.Select(self.fs_arr(st.heap, FS_KIND), d)
        from core import KSet
        dom = z3.Const(fresh_name('globdom'), z3.ArraySort(I, z3.BoolSort()))
        k = z3.Int(fresh_name('k'))
        vis = z3.Not(hidden[0](k)) if hidden is not None else z3.BoolVal(True)
        if not pat.eq(star):
            # a pattern with wildcards inside: the names present that match it (glob_match: uninterpreted, declared by
            # the contract module; what fnmatch decides is a dependency)
            vis = z3.And(vis, gm[0](pat, k))
        st.assume(z3.ForAll([k], z3.Select(dom, k) == z3.And(k > 0, z3.Select(row, k) != 0, vis),
                            patterns=[z3.Select(dom, k)]))
        names = self.snapshot_keys(st, SVal(KSet(KName), [dom]))
        return SVal(KList(KPath), [names.t[0], z3.K(I, d), names.t[1]])

    def model_write_safe(self, st, fr, args, kwargs):
        """treadmill.fs.write_safe(filename, func, ...): func writes into a temporary file of the same directory which
        is then renamed over `filename` - modelled as ONE atomic step: afterwards `filename` is a regular file holding
        what func wrote; if func raises nothing changes under `filename` (dependency contract, assumed)."""
        filename, func = args[0], args[1]
        d, n = self.as_path(st, filename)
        stream = self.alloc(st, 'WriteStream')
        outs = []
        for s2, r in self.call_value(st, fr, func, [stream], {}):
            if isinstance(r, ExcVal):
                outs.append((s2, r))
                continue
            content = self.read_field(s2, s2.heap, stream.z, 'WriteStream', 'content').z
            self.fs_set(s2, FS_KIND, d, n, z3.IntVal(1))
            self.fs_set(s2, FS_CONTENT, d, n, content)
            arr = self.H.get(s2.heap, FS_CTIME, AAR)
            t = z3.Real(fresh_name('ctime'))
            s2.assume(t > 0)
            s2.heap[FS_CTIME] = z3.Store(arr, d, z3.Store(z3.Select(arr, d), n, t))
            outs.append((s2, None))
        return outs

    # ---- writable ZooKeeper ghost store (C17): per path existence, owner session (0: not ephemeral), content token
    ZK_KEYS = {'zk_exists': (('$zk.exists', 0), z3.BoolSort()), 'zk_owner': (('$zk.owner', 0), I),
               'zk_content': (('$zk.content', 0), I)}

    def zk_env_step(self, st):
        """Between two ZooKeeper calls of one request any node may go away (its owner deleted it, or its session
        expired); nothing else is assumed to change.  Applied before every primitive whose contract lists 'zk_env'."""
        key, rng = self.ZK_KEYS['zk_exists']
        srt = z3.ArraySort(z3.StringSort(), rng)
        cur = self.H.get(st.heap, key, srt)
        new = z3.Const(fresh_name('zkenv'), srt)
        p = z3.String(fresh_name('p'))
        st.assume(z3.ForAll([p], z3.Implies(z3.Select(new, p), z3.Select(z3.Select(cur, 0), p)),
                            patterns=[z3.Select(new, p)]))
        st.heap[key] = z3.Store(cur, 0, new)

    def zk_spec(self, st, name, args):
        key, rng = self.ZK_KEYS[name]
        arr = z3.Select(self.H.get(st.heap, key, z3.ArraySort(z3.StringSort(), rng)), 0)
        from core import KBool, KAny
        v = z3.Select(arr, lift(args[0], KStr).z)
        return SVal({'zk_exists': KBool, 'zk_owner': KInt, 'zk_content': KAny}[name], [v])

    def model_join_zookeeper_path(self, st, fr, args, kwargs):
        """zknamespace.join_zookeeper_path(root, *child) = '/'.join((root,) + child): the child-path function cp applied
        once per component (cp is declared by the contract module; its injectivity is an axiom there)."""
        cp = self.reg.ufuncs['cp'][0]
        cur = self.str_term(args[0])
        for a in args[1:]:
            cur = cp(cur, self.str_term(a))
        return [(st, SVal(KStr, [cur]))]

    def str_term(self, a):
        # names (atoms) enter a path through their text (name_str)
        if isinstance(a, SVal) and a.kind == KName:
            return self.to_str(a)
        return lift(a, KStr).z

    def model_with_retry(self, st, fr, args, kwargs):
        """zkutils.with_retry(func, *args, **kwargs): calls func(*args, **kwargs) (again after a connection loss, which is
        not modelled): one call."""
        return self.call_value(st, fr, args[0], list(args[1:]), dict(kwargs))

    def _nm(self, v):
        if isinstance(v, SVal) and v.kind in (KName, KInt):
            return v.z
        return lift(v, KName).z

    # ---- spec access
    def fs_spec(self, st, name, args):
        if name == 'fs_kind':
            d, n = (self.as_path(st, args[0]) if len(args) == 1 else (self._nm(args[0]), self._nm(args[1])))
            return SI(self.fs_get(st.heap, FS_KIND, d, n))
        if name == 'fs_target':
            d, n = (self.as_path(st, args[0]) if len(args) == 1 else (self._nm(args[0]), self._nm(args[1])))
            return SVal(KPath, [self.fs_get(st.heap, FS_TDIR, d, n), self.fs_get(st.heap, FS_TNAME, d, n)])
        if name == 'fs_content':
            d, n = (self.as_path(st, args[0]) if len(args) == 1 else (self._nm(args[0]), self._nm(args[1])))
            return SI(self.fs_get(st.heap, FS_CONTENT, d, n))
        if name == 'fs_ctime':
            d, n = (self.as_path(st, args[0]) if len(args) == 1 else (self._nm(args[0]), self._nm(args[1])))
            from ops import SR
            return SR(self.fs_ctime_get(st.heap, d, n))
        if name == 'path':
            return SVal(KPath, [self._nm(args[0]), self._nm(args[1])])
        raise CheckerError('fs spec %s' % name)
