"""Registry of sidecar contracts, class schemas, loop invariants and spec functions."""
import ast
import inspect
import textwrap

from core import CheckerError, parse_kind, KRef


def clause(c):
    """A clause is 'expr' or ('C04,C05', 'expr'): -> (expr, tags or None)."""
    if isinstance(c, tuple):
        return c[1], (set(x.strip() for x in c[0].split(',')) if c[0] else None)
    return c, None


def clause_label(c, j):
    """Stable label of a clause: ('C03', 'expr', 'label') -> 'label', else its index."""
    if isinstance(c, tuple) and len(c) > 2:
        return c[2]
    return str(j)


class Contract:
    def __init__(self, qual, **kw):
        self.qual = qual
        self.types = kw.pop('types', {})
        self.requires = kw.pop('requires', [])
        self.ensures = kw.pop('ensures', [])
        self.modifies = kw.pop('modifies', [])
        # raises: {'ExcName': [ensures...]}  (exceptional postconditions, old() allowed)
        self.raises = kw.pop('raises', {})
        self.pure = kw.pop('pure', False)
        self.assumed = kw.pop('assumed', False)    # dependency contract: never verified
        self.inline = kw.pop('inline', False)
        self.props = kw.pop('props', [])           # property ids this contract serves
        self.tags = kw.pop('tags', {})             # ensures index -> list of property ids
        self.ghost = kw.pop('ghost', {})           # ghost params: name -> kind
        self.ghost_out = kw.pop('ghost_out', {})   # ghost results: name -> (kind, witness expr over the final locals)
        self.lemmas = kw.pop('lemmas', [])
        self.note = kw.pop('note', '')
        if kw:
            raise CheckerError('unknown contract keys %r for %s' % (list(kw), qual))


class LoopInv:
    def __init__(self, qual, loop, sig, inv, **kw):
        self.qual = qual
        self.loop = loop
        self.sig = sig
        self.inv = inv
        self.ghost = kw.pop('ghost', {})
        self.decreases = kw.pop('decreases', None)
        self.unroll = kw.pop('unroll', False)
        if kw:
            raise CheckerError('unknown invariant keys %r' % list(kw))


class ClassSchema:
    def __init__(self, name, module, fields, invariant=None, record=False, keys=None, abstract=False, ctx=False, shares=None):
        self.name = name
        self.module = module
        self.fields = fields          # name -> kind string
        self.record = record          # JSON-like dict accessed by x['key']
        self.abstract = abstract      # no direct instances
        self.ctx = ctx                # usable as a context manager: enter returns the object, exit not modelled
        self.shares = shares          # fields live in the heap arrays of this (declared) class: unrelated real classes with the
                                      # same attributes can then be read through one static type (the class tag tells them apart)
        self.kinds = {}

    def kind(self, reg, f):
        if f not in self.kinds:
            if f not in self.fields:
                raise CheckerError('no field %s in schema of %s' % (f, self.name))
            self.kinds[f] = reg.kind(self.fields[f])
        return self.kinds[f]


class Registry:
    def __init__(self):
        self.contracts = {}
        self.invariants = {}
        self.classes = {}
        self.enums = {}
        self.specs = {}        # name -> (ast.FunctionDef, module text)
        self.recspecs = {}
        self.axioms = []
        self.consts = {}
        self.ufuncs = {}
        self.ghostvars = {}
        self.folds = {}
        self.sites = []
        self.opaques = set()
        self.axioms_text = []
        self.props = {}

    def kind(self, text):
        if not isinstance(text, str):
            return text
        return parse_kind(text, self.classes, self.enums)

    # ---- API used by sidecar files
    def contract(self, qual, **kw):
        self.contracts[qual] = Contract(qual, **kw)

    def extend(self, qual, requires=(), ensures=(), loops=None):
        """Add (tagged, labelled) clauses of another property to a contract / loop invariants registered earlier."""
        c = self.contracts[qual]
        c.requires = list(c.requires) + list(requires)
        c.ensures = list(c.ensures) + list(ensures)
        for loop, clauses in (loops or {}).items():
            li = self.invariants[(qual, loop)]
            li.inv = list(li.inv) + list(clauses)

    def invariant(self, qual, loop, sig, inv, **kw):
        self.invariants[(qual, loop)] = LoopInv(qual, loop, sig, inv, **kw)

    def cls(self, name, module=None, fields=None, **kw):
        self.classes[name] = ClassSchema(name, module, fields or {}, **kw)

    def record(self, name, fields):
        self.classes[name] = ClassSchema(name, None, fields, record=True)

    def enum(self, name, members, module=None):
        # members: list of python names; value i+1 (0 is None)
        self.enums[name] = {'members': list(members), 'module': module}

    def spec(self, fn=None, **kw):
        """Decorator: register a spec function (its source is interpreted symbolically)."""
        def deco(f):
            src = textwrap.dedent(inspect.getsource(f))
            tree = ast.parse(src)
            node = tree.body[0]
            node.decorator_list = []
            self.specs[f.__name__] = (node, kw)
            return f
        if fn is not None:
            return deco(fn)
        return deco

    def ufunc(self, name, argkinds, retkind):
        """Uninterpreted spec function over single-leaf kinds."""
        import z3
        ks = [self.kind(a) for a in argkinds]
        rk = self.kind(retkind)
        doms = []
        for k in ks:
            doms += k.sorts()            # multi-leaf arguments (lists, vectors) are flattened
        f = z3.Function(name, *(doms + [rk.sorts()[0]]))
        self.ufuncs[name] = (f, ks, rk)

    def fold(self, name, over, term, params=(), ret='Real', keyed=False, nonneg=False):
        """Fold of `term` over the values of a dict kind: name(d, *params) = sum_{k in d} term(d[k], *params)
        (keyed: term(k, d[k], *params)).  The defining equations (empty, insert, overwrite, delete) are
        instantiated at every update.  nonneg: every summand is >= 0, hence so is the sum (a lemma by induction
        over the dict that the solver is given, not asked to prove)."""
        self.folds[name] = {'over': over, 'term': term, 'params': list(params), 'ret': ret, 'keyed': keyed,
                            'nonneg': nonneg}

    def site(self, caller, callee, asserts, ordinal=None):
        """Obligations over the caller's locals at its call(s) of `callee` (short name, e.g. 'post')."""
        self.sites.append({'caller': caller, 'callee': callee, 'asserts': asserts, 'ordinal': ordinal})

    def opaque(self, dotted):
        """A module-level object whose methods only build strings (e.g. zknamespace.path): calls return an opaque Str."""
        self.opaques.add(dotted)

    def axiom(self, name, text, note=''):
        """A definitional axiom of a witness function (assumed in every verification; listed in evidence)."""
        self.axioms_text.append((name, text, note))

    def ghostvar(self, name, kind):
        """Global symbolic constant (e.g. the content of an external store)."""
        self.ghostvars[name] = kind

    def const(self, name, value):
        self.consts[name] = value


REG = Registry()
