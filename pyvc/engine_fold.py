"""Folds over dict values (sum of demands, affinity counts): uninterpreted functions of the
dict representation whose defining equations are instantiated at every update (DESIGN 4.2)."""
import z3

import ops
from ops import asz, truthy, lift
from core import SVal, KDict, KReal, KInt, KVec, KVec3, CheckerError, fresh_name, I, R


class FoldMixin:

    def fold_funcs(self, name):
        cache = self.recfuncs.setdefault('$folds', {})
        if name not in cache:
            f = self.reg.folds[name]
            kind = self.reg.kind(f['over'])
            pk = [self.reg.kind(p) for p in f['params']]
            ret = self.reg.kind(f['ret'])
            doms = list(kind.sorts()) + [p.sorts()[0] for p in pk]
            cache[name] = ([z3.Function('fold_%s_%d' % (name, i), *(doms + [s])) for i, s in enumerate(ret.sorts())],
                           kind, pk, ret)
        return cache[name]

    def fold_apply(self, st, name, d, params):
        funcs, kind, pk, ret = self.fold_funcs(name)
        d = ops.coerce(d, kind) if d.kind != kind else d
        ps = [self.coerce_to(st, p, k).z for p, k in zip(params, pk)]
        self.fold_nonneg(name, d)
        return SVal(ret, [F(*(list(d.t) + ps)) for F in funcs])

    def fold_nonneg(self, name, d):
        """Lemma instance for a `nonneg` fold: the sum over this dict value is >= 0 for all parameters."""
        if not self.reg.folds[name].get('nonneg'):
            return
        funcs, kind, pk, ret = self.fold_funcs(name)
        cache = self.recfuncs.setdefault('$fold_nonneg', {})
        key = (name,) + tuple(t.get_id() for t in d.t)
        if key not in cache:
            self._keep = getattr(self, '_keep', []) + list(d.t)
            pv = [z3.Const(fresh_name('fp'), k.sorts()[0]) for k in pk]
            axs = []
            for F, s_ in zip(funcs, ret.sorts()):
                app = F(*(list(d.t) + pv))
                body = app >= (z3.RealVal(0) if s_ == R else z3.IntVal(0))
                axs.append(z3.ForAll(pv, body, patterns=[app]) if pv else body)
            cache[key] = axs
        # the same formula objects on every path that reaches this dict value (deduplicated by id when solving)
        self.ax_buffer.extend(cache[key])

    def folds_for(self, kind):
        return [n for n, f in self.reg.folds.items() if self.reg.kind(f['over']) == kind]

    def fold_term(self, st, fr, name, val, pvals, key=None):
        f = self.reg.folds[name]
        lam = self.ev1(self.parse_spec(f['term']), st, self.fold_frame(fr))
        r = self.call_lambda(st, self.fold_frame(fr), lam, ([key] if f.get('keyed') else []) + [val] + pvals)[0][1]
        ret = self.reg.kind(f['ret'])
        return self.coerce_to(st, r, ret)

    def fold_frame(self, fr):
        f2 = self.Frame(None, 'fold', None, spec=True)
        f2.old = fr.old if fr is not None else None
        return f2

    def fold_empty(self, st, d):
        for name in self.folds_for(d.kind):
            funcs, kind, pk, ret = self.fold_funcs(name)
            pv = [z3.Const(fresh_name('fp'), k.sorts()[0]) for k in pk]
            for F, s in zip(funcs, ret.sorts()):
                body = F(*(list(d.t) + pv)) == (z3.RealVal(0) if s == R else z3.IntVal(0))
                self.ax_buffer.append(z3.ForAll(pv, body, patterns=[F(*(list(d.t) + pv))]) if pv else body)

    def fold_update(self, st, fr, old, new, key, newval):
        """new = old with key := newval (newval None: deleted)."""
        names = self.folds_for(old.kind)
        if not names:
            return
        kt = ops.key_term(key, old.kind.key)
        was = z3.Select(old.t[0], kt)
        oldv = ops.dict_get(old, key)
        for name in names:
            funcs, kind, pk, ret = self.fold_funcs(name)
            pv = [z3.Const(fresh_name('fp'), k.sorts()[0]) for k in pk]
            pvals = [SVal(k, [v]) for k, v in zip(pk, pv)]
            b = self.push_binder(pv) if pv else None
            kv = key if isinstance(key, SVal) else lift(key, old.kind.key)
            try:
                t_old = self.fold_term(st, fr, name, oldv, pvals, kv)
                t_new = self.fold_term(st, fr, name, newval, pvals, kv) if newval is not None else None
            finally:
                if b is not None:
                    self.pop_binder(b)
            for i, F in enumerate(funcs):
                zero = z3.RealVal(0) if ret.sorts()[i] == R else z3.IntVal(0)
                rhs = F(*(list(old.t) + pv)) - z3.If(was, t_old.t[i], zero) + (t_new.t[i] if t_new is not None else zero)
                body = F(*(list(new.t) + pv)) == rhs
                # either term triggers the equation (a hypothesis may mention only the fold of the old dict)
                self.ax_buffer.append(z3.ForAll(pv, body, patterns=[F(*(list(new.t) + pv)), F(*(list(old.t) + pv))])
                                      if pv else body)
            self.fold_nonneg(name, old)
            self.fold_nonneg(name, new)
