"""Engine: verification of one function against its contract; obligation discharge."""
import ast
import multiprocessing
import os
import re
import subprocess
import tempfile
import time
import z3

import frontend
import ops
from ops import truthy, asz, zand, zor, znot
from core import (CaughtExc, SVal, TupleVal, LocalDict, FuncVal, ExcVal, KRef, KInt, KReal, KBool, CheckerError,
                  fresh_name, I, B)
from state import St, ALIVE
from contracts import clause
from engine_base import EngineBase, Frame, Obligation
from engine_expr import ExprMixin
from engine_stmt import StmtMixin, NEXT
from engine_call import CallMixin
from engine_prelude import PreludeMixin, LocalDictObj
from engine_fold import FoldMixin
from engine_fs import FsMixin


class Engine(EngineBase, ExprMixin, StmtMixin, CallMixin, PreludeMixin, FoldMixin, FsMixin):
    St = St
    Frame = Frame

    def getattr(self, st, fr, base, attr):
        if isinstance(base, LocalDictObj):
            return [(st, base.d[attr])]
        if isinstance(base, CaughtExc):
            if base.exc.info and attr in base.exc.info:
                return [(st, base.exc.info[attr])]
            if attr == 'errno':
                raise CheckerError('exception attribute %s' % attr)
            # payload attributes of an exception raised by a dependency (err.reason, err.message): opaque
            from core import fresh_val, KAny
            return [(st, fresh_val(KAny, 'exc_' + attr))]
        return ExprMixin.getattr(self, st, fr, base, attr)

    # ------------------------------------------------------------------
    def verify(self, qual):
        """Generate all obligations for function `qual` against its contract."""
        c = self.reg.contracts[qual]
        mod, node, cnode = frontend.find_def(qual)
        cname = cnode.name if cnode is not None else None
        self.current_qual = qual
        st = St()
        fr = Frame(mod, qual, cname)
        fr.fnode = node
        fr.contract = c
        fr.contract_qual = qual
        env = {}
        params = [p.arg for p in node.args.args]
        for i, p in enumerate(params):
            if i == 0 and cname is not None and p == 'self' and 'self' not in c.types:
                kind = KRef(cname)
            elif p in c.types:
                kind = self.reg.kind(c.types[p])
            else:
                raise CheckerError('contract %s: no type for parameter %s' % (qual, p))
            env[p] = self.symbolic(st, kind, p)
        if node.args.vararg or node.args.kwarg:
            raise CheckerError('varargs in function under contract %s' % qual)
        for g, k in c.ghost.items():
            env[g] = self.symbolic(st, self.reg.kind(k[0] if isinstance(k, tuple) else k), g)
        # closure variables of nested functions are declared as '^name' types
        for p, k in c.types.items():
            if p.startswith('^'):
                fr.closure[p[1:]] = self.symbolic(st, self.reg.kind(k), p[1:])
        st.env = dict(env)
        self.is_generator = any(isinstance(n, (ast.Yield, ast.YieldFrom)) for n in ast.walk(node))
        if self.is_generator:
            # generator executed eagerly to the list of yielded values (DESIGN 3.2)
            st.env['_yielded'] = ops.empty_of(self.reg.kind(c.types['_yielded']))
        for aname, atext, _ in self.reg.axioms_text:
            af = self.spec_frame(None, 'axiom:' + aname, None, {})
            saved_env = st.env
            st.env = {}
            st.assume(asz(truthy(self.ev1(self.parse_spec(atext), st, af))))
            st.env = saved_env
            self.stats['assumed_contracts'].add('axiom:' + aname)
        # a spec function declared with result kind Name denotes a name: never None (names are positive atoms)
        from core import KName as _KName
        for uname, (uf, _uks, urk) in self.reg.ufuncs.items():
            if urk is _KName and uf.arity() > 0:
                bvs = [z3.Const(fresh_name('u'), uf.domain(i_)) for i_ in range(uf.arity())]
                st.assume(z3.ForAll(bvs, uf(*bvs) > 0, patterns=[uf(*bvs)]))
        sf = self.spec_frame(mod, qual, cname, env)
        sf.closure.update(fr.closure)
        saved = st.env
        st.env = {}
        for _, text, _t in self.clauses(c.requires):
            st.assume(asz(truthy(self.ev1(self.parse_spec(text), st, sf))))
        st.env = saved
        self.flush_axioms(st)
        self.canary(st, '%s#pre.canary' % qual)
        entry_env = dict(env)
        entry_env.update(fr.closure)
        fr.old = ({}, entry_env)
        self.frame_ctx = (c, mod, cname, entry_env)
        self._allowed_cache = None
        outs = self.ex(node.body, st, fr)
        self.stats['paths'] += len(outs)
        for s, oc in outs:
            if oc[0] in ('return', 'next'):
                res = oc[1] if oc[0] == 'return' else None
                if self.is_generator:
                    res = s.env['_yielded']
                self.check_post(s, fr, c, mod, cname, entry_env, res, c.ensures, 'ensures')
                self.check_frame(s, fr, c, mod, cname, entry_env)
            elif oc[0] == 'raise':
                exc = oc[1]
                matched = None
                for ename in c.raises:
                    if self.exc_isa(exc.etype, ename):
                        matched = ename
                        break
                if matched is None:
                    self.oblige(s, '%s#noexc[%s]' % (qual, exc.etype), False)
                else:
                    spec = c.raises[matched]
                    ens = spec if isinstance(spec, (list, tuple)) else [spec]
                    self.check_post(s, fr, c, mod, cname, entry_env, None, ens, 'raises[%s]' % matched)
                    self.check_frame(s, fr, c, mod, cname, entry_env)
            else:
                raise CheckerError('loop control escaped %s' % qual)
        # vacuity guard: a call-site clause that no executed call matched proves nothing
        for s_ in self.reg.sites:
            if s_['caller'] == qual and s_['ordinal'] is not None and \
                    (s_['caller'], s_['callee'], s_['ordinal']) not in getattr(self, 'fired_sites', set()):
                raise CheckerError('call-site clause never reached: %s -> %s@%s' % (qual, s_['callee'], s_['ordinal']))
        return len(outs)

    def check_post(self, st, fr, c, mod, cname, entry_env, res, ensures, label):
        if 'return' in c.types and res is not None and not isinstance(res, (ExcVal, LocalDict)):
            try:
                res2 = self.coerce_to(st, res, self.reg.kind(c.types['return']))
                if not isinstance(res, LocalDict):
                    res = res2
            except CheckerError:
                pass
        sf = self.spec_frame(mod, c.qual, cname, entry_env, old=({}, entry_env), result=res)
        saved = st.env
        # ghost results: the witness is an expression over the function's final locals
        for g, (gk, gexpr) in c.ghost_out.items():
            wf = self.spec_frame(mod, c.qual, cname, dict(entry_env))
            wf.closure.update(saved)
            st.env = {}
            try:
                sf.closure[g] = self.coerce_to(st, self.ev1(self.parse_spec(gexpr), st, wf), self.reg.kind(gk))
            except CheckerError:
                if not label.startswith('raises'):
                    raise           # an exceptional exit may come before the witness is bound; its clauses cannot name it
        st.env = {}
        try:
            for j, text, tags in self.clauses(ensures):
                v = self.ev1(self.parse_spec(text), st, sf)
                self.oblige(st, '%s#%s[%s]' % (c.qual, label, j), truthy(v), {'text': text, 'tags': tags})
        finally:
            st.env = saved

    def frame_allowed(self, st):
        """'Class.field' -> list of predicates (r -> z3 Bool) from the verified function's modifies."""
        c, mod, cname, entry_env = self.frame_ctx
        if getattr(self, '_allowed_cache', None) is not None:
            return self._allowed_cache
        allowed = {}
        sf = self.spec_frame(mod, c.qual, cname, entry_env, old=({}, entry_env))
        entry = St((), {}, {})
        for m in c.modifies:
            if m in ('alloc', 'clock', 'fs', 'zk', 'zk_env'):
                continue
            if isinstance(m, tuple):
                cf, predtext = m
                cn, fn = cf.split('.')
                dc, kind = self.field_decl(cn, fn)
                pred = self.ev1(self.parse_spec(predtext), entry, sf)
                allowed.setdefault('%s.%s' % (dc, fn), []).append(
                    lambda r, pred=pred, cn=cn: asz(truthy(self.call_lambda(entry, sf, pred, [SVal(KRef(cn), [r])])[0][1])))
            else:
                node = self.parse_spec(m)
                base = self.ev1(node.value, entry, sf)
                dc, kind = self.field_decl(base.kind.cls, node.attr)
                allowed.setdefault('%s.%s' % (dc, node.attr), []).append(lambda r, b=base.z: r == b)
        self._allowed_cache = allowed
        self._allowed_facts = entry.pc
        return allowed

    def frame_formula(self, st, key, arr):
        allowed = self.frame_allowed(st)
        alive0 = self.alive_arr({})
        init = self.H.initial(key, arr.sort().range())
        r = z3.Int(fresh_name('fr'))
        preds = [p(r) for p in allowed.get(key[0], [])]
        guard = z3.And(z3.Select(alive0, r), *[z3.Not(p) for p in preds])
        return z3.ForAll([r], z3.Implies(guard, z3.Select(arr, r) == z3.Select(init, r)),
                         patterns=[z3.Select(arr, r)] if z3.is_const(arr) else [z3.Select(init, r)])

    def check_frame(self, st, fr, c, mod, cname, entry_env):
        """Everything outside `modifies` (on objects alive at entry) is unchanged."""
        self.frame_allowed(st)
        st.assume(*self._allowed_facts)
        for key, arr in st.heap.items():
            if key == ALIVE:
                continue
            init = self.H.initial(key, arr.sort().range())
            if arr.eq(init):
                continue
            if key[0].startswith('$fs.'):
                if 'fs' not in c.modifies:
                    self.oblige(st, '%s#frame[fs]' % c.qual, False, {'text': "changes the file system: add 'fs' to modifies"})
                continue
            if key[0].startswith('$zk.'):
                if 'zk' not in c.modifies:
                    self.oblige(st, '%s#frame[zk]' % c.qual, False, {'text': "changes the ZooKeeper store: add 'zk' to modifies"})
                continue
            if key[0] == '$clock':
                if 'clock' not in c.modifies:
                    self.oblige(st, '%s#frame[clock]' % c.qual, False, {'text': "reads the clock: add 'clock' to modifies"})
                continue
            self.oblige(st, '%s#frame[%s]' % (c.qual, key[0]), self.frame_formula(st, key, arr))

    def loop_frame(self, st, keys, mode, name=None):
        """Automatic loop invariant: the function's frame condition holds at every loop head."""
        if getattr(self, 'frame_ctx', None) is None:
            return
        for key in sorted(keys):
            if key == ALIVE or key[0] == '$clock' or key[0].startswith('$fs.') or key[0].startswith('$zk.'):
                continue
            arr = self.H.get(st.heap, key, None)
            f = self.frame_formula(st, key, arr)
            if mode == 'assume':
                st.assume(f)
            else:
                self.oblige(st, '%s.frame[%s]' % (name, key[0]), f)

# ---------------------------------------------------------------------- solving

_OBS = []


def _solve_one(args):
    idx, timeout_ms, seed = args
    ob = _OBS[idx]
    t0 = time.time()
    s = z3.Solver()
    s.set('timeout', timeout_ms if ob.kind != 'canary' else min(timeout_ms, 3000))
    s.set('random_seed', seed)
    seen = set()
    pcs = []
    for c in ob.pc:                 # the path condition repeats typing facts many times: assert each once
        i = c.get_id()
        if i not in seen:
            seen.add(i)
            pcs.append(c)
    rec_ctx = (ob.info or {}).get('rec_ctx', True)
    if rec_ctx:
        pcs = pcs + _rec_axioms_for(pcs + [ob.goal])
    s.add(*pcs)
    if ob.kind == 'canary':
        r = s.check()
        who = 'z3'
        if r != z3.unsat:
            # second opinion on vacuity: cvc5 finds trivially contradictory assumptions z3 may not
            r2, who2 = _external(s.to_smt2(), 5, only='cvc5')
            if r2 == 'unsat':
                return idx, 'unsat', time.time() - t0, None, 'cvc5'
        return idx, str(r), time.time() - t0, None, who
    # portfolio.  (0) if the goal applies no recursive spec function, first try without the hypotheses that do
    # (fewer hypotheses => sound; these are the ones that make the search seed-dependent); (1) z3 briefly;
    # (2) cvc5 on the same query; (3) z3 with the full budget, another seed; (4) z3, assertions reversed.
    sliced = None
    if rec_ctx and not _has_rec(ob.goal):
        sliced = [c for c in pcs if not _has_rec(c)]
        if len(sliced) == len(pcs):
            sliced = None
    s.add(z3.Not(ob.goal))
    # (0a) strings as atoms: if the query uses strings only through equality, literals and uninterpreted functions, the
    # String sort is replaced by an uninterpreted sort with pairwise distinct constants for the literals.  Every model
    # over real strings is a model of the abstraction, so `unsat` carries over (sound); z3's sequence solver is what
    # makes such queries slow (0.03 s instead of > 60 s on the C18 obligations).  Tried on the sliced query first.
    if os.environ.get('VERIF_STRABS', '1') != '0':
        for hyps, tag in ((sliced, 'z3-sliced-strabs'), (pcs, 'z3-strabs')):
            if hyps is None:
                continue
            sq = z3.Solver()
            sq.add(*hyps)
            sq.add(z3.Not(ob.goal))
            abs_text = _strabs(sq.to_smt2())
            if abs_text is None:
                break
            try:
                s1 = z3.Solver()
                s1.set('timeout', min(timeout_ms, 10000))
                s1.set('random_seed', seed)
                s1.add(*z3.parse_smt2_string(abs_text))
                if s1.check() == z3.unsat:
                    return idx, 'unsat', time.time() - t0, None, tag
            except z3.Z3Exception:
                break
    if sliced is not None:
        s0 = z3.Solver()
        s0.set('timeout', min(timeout_ms, 6000))
        s0.set('random_seed', seed)
        s0.add(*sliced)
        s0.add(z3.Not(ob.goal))
        if s0.check() == z3.unsat:
            return idx, 'unsat', time.time() - t0, None, 'z3-sliced'
    s.set('timeout', min(timeout_ms, 4000))
    r = s.check()
    backend = 'z3'
    if r == z3.unknown:
        smt2 = s.to_smt2()
        r2, who = _external(smt2, 15, only='cvc5')
        if r2 == 'unsat':
            return idx, 'unsat', time.time() - t0, None, 'cvc5'
        for attempt, order in enumerate((pcs, list(reversed(pcs)))):
            s2 = z3.Solver()
            s2.set('timeout', timeout_ms if attempt == 0 else max(timeout_ms // 2, 5000))
            s2.set('random_seed', seed + 1 + attempt)
            s2.add(z3.Not(ob.goal))
            s2.add(*order)
            r = s2.check()
            s = s2
            if r != z3.unknown:
                break
    model = None
    smt2 = None
    if r == z3.sat:
        try:
            m = s.model()
            model = {}
            for d in m.decls():
                if d.arity() == 0:
                    model[d.name()] = str(m[d])[:400]
        except Exception as ex:   # noqa
            model = {'error': str(ex)}
    elif r == z3.unknown:
        smt2 = s.to_smt2()
    return idx, str(r), time.time() - t0, model, ('z3', smt2)


_STR_LIT = re.compile(r'"(?:[^"]|"")*"')
_STR_OPS = re.compile(r'\((?:str\.|re\.|seq\.|int\.to\.str|_ char|_ re)')


def _abstract_concat(body):
    """Rewrite every n-ary (str.++ a b c ...) into nested applications of an uninterpreted binary strcat!."""
    out = []
    i = 0
    n = len(body)

    def parse(i):
        # returns (text of one s-expression starting at i, index after it)
        while i < n and body[i].isspace():
            i += 1
        if body[i] != '(':
            j = i
            while j < n and not body[j].isspace() and body[j] not in '()':
                j += 1
            return body[i:j], j
        # a list
        j = i + 1
        items = []
        while True:
            while j < n and body[j].isspace():
                j += 1
            if body[j] == ')':
                j += 1
                break
            t, j = parse(j)
            items.append(t)
        if items and items[0] == 'str.++':
            args = items[1:]
            if not args:
                raise ValueError('empty concat')
            cur = args[0]
            for a in args[1:]:
                cur = '(strcat! %s %s)' % (cur, a)
            return cur, j
        return '(' + ' '.join(items) + ')', j

    try:
        while i < n:
            while i < n and body[i].isspace():
                out.append(body[i])
                i += 1
            if i >= n:
                break
            if body[i] == ';':
                j = body.find('\n', i)
                j = n if j < 0 else j
                out.append(body[i:j])
                i = j
                continue
            t, i = parse(i)
            out.append(t + '\n')
    except (ValueError, IndexError):
        return None
    res = ''.join(out)
    marker = '(set-info :status unknown)'
    return res.replace(marker, marker + '\n(declare-fun strcat! (String String) String)', 1)


def _strabs(text):
    """SMT-LIB text with the String sort abstracted to an uninterpreted sort (None if the query applies string
    operations other than equality / literals / uninterpreted functions)."""
    if 'String' not in text:
        return None
    lits = sorted(set(_STR_LIT.findall(text)))
    body = _STR_LIT.sub(lambda m: 'strlit!%d' % lits.index(m.group(0)), text)
    if '(str.++' in body:
        body = _abstract_concat(body)       # concatenation as an uninterpreted binary function (weaker: sound)
        if body is None:
            return None
    extra_decl = ''
    if '(str.from_int' in body or '(int.to.str' in body:
        body = body.replace('(str.from_int', '(strfromint!').replace('(int.to.str', '(strfromint!')
        extra_decl += '(declare-fun strfromint! (Int) String)\n'      # uninterpreted: weaker, sound
    if '(str.to_int' in body or '(str.to.int' in body:
        body = body.replace('(str.to_int', '(strtoint!').replace('(str.to.int', '(strtoint!')
        extra_decl += '(declare-fun strtoint! (String) Int)\n'
    if extra_decl:
        body = body.replace('(set-info :status unknown)', '(set-info :status unknown)\n' + extra_decl, 1)
    if _STR_OPS.search(body) or 'RegLan' in body or 'Seq ' in body:
        return None
    body = re.sub(r'\bString\b', 'StrAtom', body)
    decl = '(declare-sort StrAtom 0)\n' + ''.join('(declare-fun strlit!%d () StrAtom)\n' % i for i in range(len(lits)))
    if len(lits) > 1:
        decl += '(assert (distinct %s))\n' % ' '.join('strlit!%d' % i for i in range(len(lits)))
    marker = '(set-info :status unknown)'
    if marker not in body:
        return None
    return body.replace(marker, marker + '\n' + decl, 1)


def _has_rec(e):
    """Does the term apply a recursive (define-fun-rec) function?"""
    seen = set()
    todo = [e]
    while todo:
        t = todo.pop()
        i = t.get_id()
        if i in seen:
            continue
        seen.add(i)
        if z3.is_quantifier(t):
            todo.append(t.body())
        elif z3.is_app(t):
            if t.decl().kind() == z3.Z3_OP_RECURSIVE or _is_fuel(t.decl()):
                return True
            todo.extend(t.children())
    return False


def _is_fuel(decl):
    from engine_call import REC_AXIOMS
    return decl.kind() == z3.Z3_OP_UNINTERPRETED and decl.name() in REC_AXIOMS


def _fuel_names(e, acc, seen):
    todo = [e]
    while todo:
        t = todo.pop()
        i = t.get_id()
        if i in seen:
            continue
        seen.add(i)
        if z3.is_quantifier(t):
            todo.append(t.body())
        elif z3.is_app(t):
            if t.decl().kind() == z3.Z3_OP_UNINTERPRETED and t.num_args() > 0:
                acc.add(t.decl().name())
            todo.extend(t.children())


def _rec_axioms_for(terms):
    """Defining axioms of the fuel-encoded recursive spec functions mentioned (transitively) by `terms`."""
    from engine_call import REC_AXIOMS
    if not REC_AXIOMS:
        return []
    names, seen, out, done = set(), set(), [], set()
    for t in terms:
        _fuel_names(t, names, seen)
    work = [n for n in names if n in REC_AXIOMS]
    while work:
        n = work.pop()
        if n in done:
            continue
        done.add(n)
        out += REC_AXIOMS[n]
        more = set()
        for ax in REC_AXIOMS[n]:
            _fuel_names(ax, more, seen)
        work += [m for m in more if m in REC_AXIOMS and m not in done]
    return out


def _rec_decls(e):
    """Names of the recursive (define-fun-rec) functions a term applies."""
    seen = set()
    out = set()
    todo = [e]
    while todo:
        t = todo.pop()
        i = t.get_id()
        if i in seen:
            continue
        seen.add(i)
        if z3.is_quantifier(t):
            todo.append(t.body())
        elif z3.is_app(t):
            if t.decl().kind() == z3.Z3_OP_RECURSIVE or _is_fuel(t.decl()):
                out.add(t.decl().name())
            todo.extend(t.children())
    return out


def _external(smt2, timeout_s, only=None):
    """Fallback solvers on SMT-LIB2 text: /usr/bin/z3 (4.8.12) then cvc5."""
    with tempfile.NamedTemporaryFile('w', suffix='.smt2', delete=False) as f:
        f.write(smt2)
        path = f.name
    try:
        for name, cmd in (('z3-4.8', ['/usr/bin/z3', '-T:%d' % timeout_s, path]),
                          ('cvc5', ['/usr/bin/cvc5', '--tlimit=%d' % (timeout_s * 1000), '--strings-exp', path])):
            if only is not None and name != only:
                continue
            try:
                out = subprocess.run(cmd, capture_output=True, text=True, timeout=timeout_s + 5).stdout.strip().splitlines()
            except subprocess.TimeoutExpired:
                continue
            if out and out[0] in ('unsat', 'sat'):
                return out[0], name
    finally:
        os.unlink(path)
    return 'unknown', None


def _ext_one(args):
    idx, smt2, timeout_s = args
    r, who = _external(smt2, timeout_s)
    return idx, r, who


def _child(idx, timeout_ms, seed, conn):
    try:
        res = _solve_one((idx, timeout_ms, seed))
        conn.send(res)
    except BaseException as ex:     # noqa
        try:
            conn.send((idx, 'error', 0.0, {'error': repr(ex)[:300]}, 'z3'))
        except Exception:           # noqa
            pass
    finally:
        conn.close()
        os._exit(0)


def discharge(obs, timeout_ms=20000, procs=16, seed=0, ext_timeout_s=20, use_external=True, retry=True, no_retry=()):
    """Each obligation is solved in its own forked process, hard-killed at timeout + grace.
    -> list of result dicts aligned with obs."""
    global _OBS
    _OBS = obs
    results = [None] * len(obs)
    ctx = multiprocessing.get_context('fork')
    pending = list(range(len(obs)))
    running = {}
    grace = 5.0
    ext = []
    while pending or running:
        while pending and len(running) < procs:
            idx = pending.pop(0)
            pr, pw = ctx.Pipe(duplex=False)
            p = ctx.Process(target=_child, args=(idx, timeout_ms, seed, pw))
            p.start()
            pw.close()
            running[idx] = (p, pr, time.time())
        done = []
        for idx, (p, pr, t0) in running.items():
            if pr.poll(0):
                try:
                    _, r, dt, model, extra = pr.recv()
                except EOFError:
                    r, dt, model, extra = 'error', time.time() - t0, None, 'z3'
                backend = extra[0] if isinstance(extra, tuple) else extra
                results[idx] = {'result': r, 'time': dt, 'model': model, 'backend': backend}
                if r == 'unknown' and isinstance(extra, tuple) and extra[1] and obs[idx].kind == 'ob':
                    ext.append((idx, extra[1]))
                done.append(idx)
            elif time.time() - t0 > (timeout_ms * 1.5 + 25000 if obs[idx].kind != 'canary' else min(timeout_ms, 3000) + 6000) / 1000.0 + grace:
                p.kill()
                results[idx] = {'result': 'unknown', 'time': time.time() - t0, 'model': None, 'backend': 'z3(killed)'}
                done.append(idx)
            elif not p.is_alive() and not pr.poll(0):
                results[idx] = {'result': 'error', 'time': time.time() - t0, 'model': None, 'backend': 'z3(died)'}
                done.append(idx)
        for idx in done:
            p, pr, _ = running.pop(idx)
            p.join(timeout=1)
            if p.is_alive():
                p.kill()
            pr.close()
        if not done:
            time.sleep(0.01)
    if use_external and ext:
        from concurrent.futures import ThreadPoolExecutor
        with ThreadPoolExecutor(max_workers=procs) as tp:
            for (idx, _), (r, who) in zip(ext, tp.map(lambda a: _external(a[1], ext_timeout_s), ext)):
                if r in ('unsat', 'sat'):
                    results[idx]['result'] = r
                    results[idx]['backend'] = who
    if retry:
        # verdicts must not flip when the machine is busy: whatever is still `unknown` is run once more with
        # three times the budget (few instances: on an unchanged tree there are none)
        again = [i for i, r in enumerate(results) if obs[i].kind == 'ob' and r['result'] == 'unknown' and
                 obs[i].name not in no_retry]      # listed known findings are expected to stay open
        if 0 < len(again) <= 24:
            sub = discharge([obs[i] for i in again], timeout_ms=timeout_ms * 3, procs=min(procs, 8), seed=seed + 7,
                            ext_timeout_s=ext_timeout_s * 2, use_external=use_external, retry=False)
            _OBS = obs
            for i, r in zip(again, sub):
                if r['result'] == 'unsat':
                    r['backend'] = str(r['backend']) + '(retry)'
                    r['time'] += results[i]['time']
                    results[i] = r
    return results
