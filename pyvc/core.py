"""pyvc core: kinds (static shapes of Python values), symbolic values, heap keys.

A *kind* says how a Python value is laid out as a tuple of z3 leaf terms
("flattening").  Containers and objects are references (Int) into a
Boogie-style heap: one SMT array per field / per container component.
"""
import z3

I = z3.IntSort()
R = z3.RealSort()
B = z3.BoolSort()
S = z3.StringSort()


class CheckerError(Exception):
    """Engine cannot handle a construct (exit 3) - never a verdict."""


class Kind:
    name = 'kind'

    def sorts(self):
        raise NotImplementedError

    def __repr__(self):
        return self.name

    def __eq__(self, other):
        return isinstance(other, Kind) and repr(self) == repr(other)

    def __hash__(self):
        return hash(repr(self))

    @property
    def nleaves(self):
        return len(self.sorts())


class KPrim(Kind):
    nullable = False

    def __init__(self, name, sort, nullable=False):
        self.name = name
        self._sort = sort
        self.nullable = nullable

    def sorts(self):
        return [self._sort]


KInt = KPrim('Int', I)
KReal = KPrim('Real', R)
KBool = KPrim('Bool', B)
KStr = KPrim('Str', S)
# Names: atoms (Int-backed).  0 encodes None; valid names are > 0 (non-empty).
KBits = KPrim('Bits', z3.BitVecSort(64))
KName = KPrim('Name', I)
KAny = KPrim('Any', I)                # an opaque token for a value of any type (equal values => equal tokens)
KCallable = KPrim('Callable', I)      # opaque callback (calling it has no modelled effect)
KNameOpt = KPrim('Name', I, nullable=True)


class KRef(Kind):
    """Reference to an object of class `cls` (or subclass). 0 is None.
    `nullable` is a typing annotation only (not part of kind identity)."""

    def __init__(self, cls, nullable=False):
        self.cls = cls
        self.nullable = nullable
        self.name = 'Ref[%s]' % cls

    def sorts(self):
        return [I]


class KEnum(Kind):
    def __init__(self, ename, nullable=False):
        self.ename = ename
        self.nullable = nullable
        self.name = 'Enum[%s]' % ename

    def sorts(self):
        return [I]


class KOpt(Kind):
    """Optional of a non-reference kind: leaf 0 is the is-None flag."""

    def __init__(self, inner):
        self.inner = inner
        self.name = 'Opt[%r]' % inner

    def sorts(self):
        return [B] + self.inner.sorts()


class KExt(Kind):
    """Extended real: (is_inf, value).  +inf only."""
    name = 'Ext'

    def sorts(self):
        return [B, R]


KExtReal = KExt()


class KTuple(Kind):
    def __init__(self, items):
        self.items = list(items)
        self.name = 'Tuple[%s]' % ','.join(repr(i) for i in self.items)

    def sorts(self):
        out = []
        for i in self.items:
            out += i.sorts()
        return out


class KVec(Kind):
    """numpy vector of DIMENSION_COUNT == 3 reals, value semantics."""
    name = 'Vec'
    n = 3

    def sorts(self):
        return [R, R, R]


KVec3 = KVec()


# Containers are *values* (arrays), not heap references: see DESIGN 3.3
# (value semantics + alias-escape assumption).
class KList(Kind):
    """leaves: len, then one Array(Int, s) per element leaf."""

    def __init__(self, elem):
        self.elem = elem
        self.name = 'List[%r]' % elem

    def sorts(self):
        return [I] + [z3.ArraySort(I, s) for s in self.elem.sorts()]


def _keysort(k):
    ss = k.sorts()
    if len(ss) != 1:
        raise CheckerError('container key must be single-leaf: %r' % k)
    return ss[0]


class KDict(Kind):
    """leaves: dom Array(K,Bool), then one Array(K, s) per value leaf."""

    def __init__(self, key, val):
        self.key = key
        self.val = val
        self.name = 'Dict[%r,%r]' % (key, val)

    def sorts(self):
        ks = _keysort(self.key)
        return [z3.ArraySort(ks, B)] + [z3.ArraySort(ks, s) for s in self.val.sorts()]


class KSet(Kind):
    def __init__(self, key):
        self.key = key
        self.name = 'Set[%r]' % key

    def sorts(self):
        return [z3.ArraySort(_keysort(self.key), B)]


class KCounter(Kind):
    """Total map key -> Int (collections.Counter; missing keys read as 0)."""

    def __init__(self, key):
        self.key = key
        self.name = 'Counter[%r]' % key

    def sorts(self):
        return [z3.ArraySort(_keysort(self.key), I)]


class KTotal(Kind):
    """Total map key -> value (defaultdict read-only use: subscripts never raise)."""

    def __init__(self, key, val):
        self.key = key
        self.val = val
        self.name = 'Total[%r,%r]' % (key, val)

    def sorts(self):
        ks = _keysort(self.key)
        return [z3.ArraySort(ks, s) for s in self.val.sorts()]


def is_refkind(k):
    return isinstance(k, KRef)


def parse_kind(text, classes=(), enums=()):
    """Parse 'Dict[Name,Ref[Application]]' style kind strings."""
    text = text.strip()
    prim = {'Any': KAny, 'Callable': KCallable, 'Bits': KBits, 'Int': KInt, 'Real': KReal, 'Bool': KBool, 'Str': KStr,
            'Name': KName, 'Vec': KVec3, 'Ext': KExtReal}
    if text in prim:
        return prim[text]
    if text == 'Path':
        k = KTuple([KName, KName])
        k.name = 'Path'
        return k
    if text in enums:
        return KEnum(text)
    if '[' not in text:
        # bare class name
        return KRef(text)
    head, rest = text.split('[', 1)
    assert rest.endswith(']'), text
    rest = rest[:-1]
    args = []
    depth = 0
    cur = ''
    for ch in rest:
        if ch == '[':
            depth += 1
        elif ch == ']':
            depth -= 1
        if ch == ',' and depth == 0:
            args.append(cur)
            cur = ''
        else:
            cur += ch
    if cur.strip():
        args.append(cur)
    sub = [parse_kind(a, classes, enums) for a in args]
    if head == 'Ref':
        return KRef(args[0].strip())
    if head == 'Opt':
        inner = sub[0]
        if isinstance(inner, KRef):
            return KRef(inner.cls, nullable=True)          # nullable by value 0
        if inner == KName:
            return KNameOpt
        if isinstance(inner, KEnum):
            return KEnum(inner.ename, nullable=True)
        return KOpt(inner)
    if head == 'List':
        return KList(sub[0])
    if head == 'Dict':
        return KDict(sub[0], sub[1])
    if head == 'DefaultDict':
        k = KDict(sub[0], sub[1])
        if isinstance(sub[1], KRef):
            k.default_cls = sub[1].cls   # collections.defaultdict(Cls): a missing key constructs Cls()
        else:
            k.default_cls = '$value'     # collections.defaultdict(dict/list/set): a missing key gets the empty value
        return k
    if head == 'Set':
        return KSet(sub[0])
    if head == 'Counter':
        return KCounter(sub[0])
    if head == 'Total':
        return KTotal(sub[0], sub[1])
    if head == 'Tuple':
        return KTuple(sub)
    if head == 'Enum':
        return KEnum(args[0].strip())
    raise CheckerError('unknown kind %r' % text)


class SVal:
    """Symbolic value: kind + tuple of z3 leaf terms."""
    __slots__ = ('kind', 't')

    def __init__(self, kind, terms):
        self.kind = kind
        self.t = tuple(terms)
        assert len(self.t) == kind.nleaves, (kind, terms)

    def __repr__(self):
        return 'SVal(%r, %s)' % (self.kind, ', '.join(str(x) for x in self.t))

    @property
    def z(self):
        assert len(self.t) == 1, self
        return self.t[0]


class TupleVal:
    """Concrete-length Python tuple/list-literal of values (immutable)."""
    __slots__ = ('items',)

    def __init__(self, items):
        self.items = tuple(items)

    def __repr__(self):
        return 'TupleVal%r' % (self.items,)


class LocalDict:
    """A dict literal with constant keys that never escapes a function:
    kept as a Python mapping const-key -> value inside the path state."""
    __slots__ = ('d',)

    def __init__(self, d=None):
        self.d = dict(d or {})

    def copy(self):
        return LocalDict(self.d)

    def __repr__(self):
        return 'LocalDict(%r)' % (self.d,)


class FuncVal:
    """A function/method value (repo function, closure, lambda, builtin)."""
    __slots__ = ('kind', 'qual', 'node', 'module', 'selfv', 'closure', 'cls', 'py')

    def __init__(self, kind, qual=None, node=None, module=None, selfv=None,
                 closure=None, cls=None, py=None):
        self.kind = kind          # 'repo' | 'lambda' | 'builtin' | 'spec'
        self.qual = qual
        self.node = node
        self.module = module
        self.selfv = selfv
        self.closure = closure
        self.cls = cls
        self.py = py

    def __repr__(self):
        return 'FuncVal(%s,%s)' % (self.kind, self.qual)


class ClassVal:
    __slots__ = ('name', 'module')

    def __init__(self, name, module):
        self.name = name
        self.module = module

    def __repr__(self):
        return 'ClassVal(%s)' % self.name


class ModuleVal:
    __slots__ = ('name',)

    def __init__(self, name):
        self.name = name

    def __repr__(self):
        return 'ModuleVal(%s)' % self.name


class ExcVal:
    """A raised exception outcome."""
    __slots__ = ('etype', 'args', 'info')

    def __init__(self, etype, args=(), info=None):
        self.etype = etype
        self.args = args
        self.info = info

    def __repr__(self):
        return 'ExcVal(%s)' % self.etype


class CaughtExc:
    """An exception object bound by `except E as name` (a value, not a raise outcome)."""
    __slots__ = ('exc',)

    def __init__(self, exc):
        self.exc = exc

    def __repr__(self):
        return 'CaughtExc(%s)' % self.exc.etype


_fresh_counter = [0]


def fresh_name(prefix):
    _fresh_counter[0] += 1
    return '%s!%d' % (prefix, _fresh_counter[0])


def fresh_terms(kind, prefix):
    return [z3.Const(fresh_name(prefix), s) for s in kind.sorts()]


def fresh_val(kind, prefix):
    return SVal(kind, fresh_terms(kind, prefix))
