"""Expression evaluation (code mode: list of outcomes; spec mode: single, total)."""
import ast
import z3

import frontend
import ops
from ops import SB, SI, SR, truthy, equal, compare, arith, zand, zor, znot, asz, lift
from core import (KAny, KTotal, KBits, SVal, TupleVal, LocalDict, FuncVal, ClassVal, ModuleVal, ExcVal, KRef, KEnum, KName,
                  KInt, KReal, KBool, KStr, KOpt, KList, KDict, KSet, KCounter, KTuple, KExt, KVec, KVec3,
                  CheckerError, fresh_name, fresh_val, I, B, R)

BINOPS = {ast.Add: '+', ast.Sub: '-', ast.Mult: '*', ast.Div: '/', ast.FloorDiv: '//', ast.Mod: '%',
          ast.Pow: '**', ast.BitOr: '|', ast.BitAnd: '&', ast.BitXor: '^'}
CMPOPS = {ast.Lt: '<', ast.LtE: '<=', ast.Gt: '>', ast.GtE: '>='}


def is_exc(v):
    return isinstance(v, ExcVal)


class ExprMixin:

    # -------------------------------------------------------------- helpers
    def seq(self, exprs, st, fr):
        """Evaluate expressions left to right; -> list of (st, [vals] | ExcVal)."""
        outs = [(st, [])]
        for e in exprs:
            nxt = []
            for s, vals in outs:
                if is_exc(vals):
                    nxt.append((s, vals))
                    continue
                for s2, v in self.ev(e, s, fr):
                    nxt.append((s2, v if is_exc(v) else vals + [v]))
            outs = nxt
        return outs

    def ev1(self, e, st, fr):
        outs = self.ev(e, st, fr)
        if len(outs) != 1 or is_exc(outs[0][1]):
            raise CheckerError('expression not single-valued: %s' % ast.dump(e)[:120])
        return outs[0][1]

    def raise_exc(self, st, etype, info=None):
        return [(st, ExcVal(etype, info=info))]

    def partial(self, st, fr, ok, etype, mk):
        """Partial operation: defined iff `ok`.  code mode: fork; spec mode: total."""
        if fr.spec or ok is True:
            return [(st, mk(st))]
        t, f = self.fork(st, ok)
        outs = []
        if t is not None:
            outs.append((t, mk(t)))
        if f is not None:
            outs.append((f, ExcVal(etype)))
        return outs

    # -------------------------------------------------------------- main
    def ev(self, e, st, fr):
        m = getattr(self, 'ev_' + type(e).__name__, None)
        if m is None:
            raise CheckerError('unsupported expression %s in %s' % (type(e).__name__, fr.qual))
        outs = m(e, st, fr)
        for s, _ in outs:
            self.flush_axioms(s)
        return outs

    def ev_Constant(self, e, st, fr):
        return [(st, e.value)]

    def ev_Name(self, e, st, fr):
        return [(st, self.lookup(e.id, st, fr))]

    def lookup(self, name, st, fr):
        if name in fr.bound:
            return fr.bound[name]
        if name in st.env:
            return st.env[name]
        if name in fr.closure:
            return fr.closure[name]
        if fr.spec:
            if name == 'result':
                return fr.result
            if name in self.reg.specs:
                return FuncVal('spec', qual=name)
            if name in self.reg.consts:
                return self.reg.consts[name]
            if name in self.reg.ufuncs:
                return FuncVal('builtin', qual='ufunc.' + name)
            if name in self.reg.folds:
                return FuncVal('builtin', qual='fold.' + name)
            if name in self.reg.ghostvars:
                return self.ghost_value(name)
            if name in self.SPEC_BUILTINS:
                return FuncVal('builtin', qual='spec.' + name)
        v = self.module_global(fr.module, name)
        if v is not NotImplemented:
            return v
        if name == '__name__' and fr.module is not None:
            return fr.module.name
        if name in self.BUILTINS:
            return FuncVal('builtin', qual='builtins.' + name)
        if name in ('True', 'False', 'None'):
            return {'True': True, 'False': False, 'None': None}[name]
        if name in self.EXC_NAMES:
            return ClassVal(name, None)
        if fr.spec and name in self.reg.classes:
            return ClassVal(name, self.reg.classes[name].module)
        if fr.spec and name in self.reg.enums:
            return ClassVal(name, self.reg.enums[name]['module'])
        raise CheckerError('unbound name %s in %s' % (name, fr.qual))

    EXC_NAMES = {'Exception', 'KeyError', 'ValueError', 'OSError', 'IOError', 'TypeError', 'AssertionError',
                 'StopIteration', 'IndexError', 'AttributeError', 'RuntimeError', 'NotImplementedError'}

    def ghost_value(self, name):
        cache = self.__dict__.setdefault('_ghosts', {})
        if name not in cache:
            kind = self.reg.kind(self.reg.ghostvars[name])
            cache[name] = SVal(kind, [z3.Const('G_%s_%d' % (name, i), s) for i, s in enumerate(kind.sorts())])
        return cache[name]

    def module_global(self, mod, name):
        if mod is None:
            return NotImplemented
        if ('%s.%s' % (mod.name, name)) in self.reg.opaques:
            return ModuleVal('$opaque:%s.%s' % (mod.name, name))
        if name in mod.defs:
            node = mod.defs[name]
            if isinstance(node, ast.ClassDef):
                return ClassVal(name, mod.name)
            return FuncVal('repo', qual='%s:%s' % (mod.name, name), node=node, module=mod)
        if name in mod.imports:
            tgt = mod.imports[name]
            if isinstance(tgt, tuple):
                m, a = tgt
                full = '%s.%s' % (m, a)
                if m.startswith('treadmill') and frontend.module_exists(full):
                    return ModuleVal(full)
                if m.startswith('treadmill') and frontend.module_exists(m):
                    return self.module_global(frontend.module(m), a)
                return self.library_attr(m, a)
            return ModuleVal(tgt)
        if ('%s.%s' % (mod.name, name)) in self.reg.consts:
            return self.reg.consts['%s.%s' % (mod.name, name)]
        if name in mod.assigns:
            return self.const_global(mod, name)
        return NotImplemented

    def const_global(self, mod, name):
        key = (mod.name, name)
        cache = self.__dict__.setdefault('_gcache', {})
        if key not in cache:
            node = mod.assigns[name]
            fr = self.Frame(mod, mod.name + ':<module>')
            fr.spec = True    # module-level constants: total evaluation
            try:
                cache[key] = self.ev1(node, self.St(), fr)
            except CheckerError as ex:
                raise CheckerError('module constant %s.%s: %s' % (mod.name, name, ex))
        return cache[key]

    def ev_Tuple(self, e, st, fr):
        outs = []
        for s, vals in self.seq(e.elts, st, fr):
            outs.append((s, vals if is_exc(vals) else TupleVal(vals)))
        return outs

    ev_List = ev_Tuple

    def ev_Set(self, e, st, fr):
        return self.ev_Tuple(e, st, fr)

    def ev_Dict(self, e, st, fr):
        keys = []
        for k in e.keys:
            if not isinstance(k, ast.Constant):
                raise CheckerError('dict literal with non-constant key in %s' % fr.qual)
            keys.append(k.value)
        outs = []
        for s, vals in self.seq(e.values, st, fr):
            outs.append((s, vals if is_exc(vals) else LocalDict(dict(zip(keys, vals)))))
        return outs

    def ev_JoinedStr(self, e, st, fr):
        parts = []
        exprs = [v.value for v in e.values if isinstance(v, ast.FormattedValue)]
        outs = []
        for s, vals in self.seq(exprs, st, fr):
            if is_exc(vals):
                outs.append((s, vals))
                continue
            it = iter(vals)
            terms = []
            for v in e.values:
                if isinstance(v, ast.Constant):
                    terms.append(z3.StringVal(v.value))
                else:
                    terms.append(self.to_str(next(it)))
            outs.append((s, SVal(KStr, [ops.str_concat(terms)])))
        return outs

    def ev_Lambda(self, e, st, fr):
        clo = dict(fr.closure)
        clo.update(st.env)
        f = FuncVal('lambda', qual=fr.qual + '.<lambda>', node=e, module=fr.module, closure=clo)
        f.cls = fr.cls
        return [(st, f)]

    def ev_UnaryOp(self, e, st, fr):
        outs = []
        for s, v in self.ev(e.operand, st, fr):
            if is_exc(v):
                outs.append((s, v))
            elif isinstance(e.op, ast.Not):
                t = truthy(v)
                outs.append((s, (not t) if isinstance(t, bool) else SB(z3.Not(t))))
            elif isinstance(e.op, ast.USub):
                outs.append((s, ops.neg(v)))
            elif isinstance(e.op, ast.UAdd):
                outs.append((s, v))
            else:
                raise CheckerError('unary op')
        return outs

    def ev_BinOp(self, e, st, fr):
        op = BINOPS.get(type(e.op))
        if op is None:
            raise CheckerError('binop %s' % type(e.op).__name__)
        outs = []
        for s, vals in self.seq([e.left, e.right], st, fr):
            if is_exc(vals):
                outs.append((s, vals))
                continue
            outs += self.binop(s, fr, op, vals[0], vals[1])
        return outs

    def binop(self, st, fr, op, a, b):
        a, b = self.unwrap_opt(st, fr, a), self.unwrap_opt(st, fr, b)
        ka, kb = ops.kind_of(a), ops.kind_of(b)
        # string formatting
        if op == '%' and (isinstance(a, str) or ka == KStr):
            return [(st, self.str_percent(a, b))]
        def _viewset(x):
            if isinstance(x, tuple) and x and x[0] == 'view' and x[1] == 'keys':
                return SVal(KSet(x[2].kind.key), [x[2].t[0]])
            return x
        a, b = _viewset(a), _viewset(b)
        ka, kb = ops.kind_of(a), ops.kind_of(b)
        if isinstance(ka, (KSet,)) or isinstance(kb, KSet):
            return [(st, self.set_binop(st, op, a, b))]
        if isinstance(a, TupleVal) and op == '+' and isinstance(kb, KList):
            a = self.coerce_to(st, a, kb)
            ka = kb
        if isinstance(ka, KList) and op == '+':
            b2 = self.coerce_to(st, b, ka)
            return [(st, self.list_concat(a, b2))]
        if op in ('/', '//', '%') and not fr.spec:
            zb = b if not isinstance(b, SVal) else None
            if isinstance(b, SVal) and b.kind in (KInt, KReal):
                return self.partial(st, fr, b.z != 0, 'ZeroDivisionError', lambda s: arith(op, a, b))
            if isinstance(kb, KVec):
                ok = zand(*[t != 0 for t in b.t])
                return self.partial(st, fr, ok, 'ZeroDivisionError', lambda s: arith(op, a, b))
        r = arith(op, a, b)
        if isinstance(r, tuple):       # ext real subtraction with side condition
            val, (tag, cond) = r
            if not fr.spec:
                self.oblige(st, fr.prefix + '#nan', znot(cond))
            return [(st, val)]
        return [(st, r)]

    def ev_BoolOp(self, e, st, fr):
        is_and = isinstance(e.op, ast.And)
        if fr.spec:
            vals = [self.ev1(v, st, fr) for v in e.values]
            ts = [truthy(v) for v in vals]
            allbool = all(ops.kind_of(v) == KBool for v in vals)
            if allbool or True:
                r = zand(*ts) if is_and else zor(*ts)
                return [(st, r if isinstance(r, bool) else SB(r))]
        # code mode: short-circuit by forking
        outs = []
        work = [(st, 0, None)]
        while work:
            s, i, _ = work.pop()
            for s2, v in self.ev(e.values[i], s, fr):
                if is_exc(v) or i == len(e.values) - 1:
                    outs.append((s2, v))
                    continue
                t = truthy(v)
                tt, ff = self.fork(s2, t)
                if is_and:
                    if ff is not None:
                        outs.append((ff, v))
                    if tt is not None:
                        work.append((tt, i + 1, None))
                else:
                    if tt is not None:
                        outs.append((tt, v))
                    if ff is not None:
                        work.append((ff, i + 1, None))
        return outs

    def ev_IfExp(self, e, st, fr):
        if fr.spec:
            c = truthy(self.ev1(e.test, st, fr))
            a = self.ev1(e.body, st, fr)
            b = self.ev1(e.orelse, st, fr)
            return [(st, ops.ite(c, a, b))]
        outs = []
        for s, c in self.ev(e.test, st, fr):
            if is_exc(c):
                outs.append((s, c))
                continue
            tt, ff = self.fork(s, truthy(c))
            if tt is not None:
                outs += self.ev(e.body, tt, fr)
            if ff is not None:
                outs += self.ev(e.orelse, ff, fr)
        return outs

    def ev_Compare(self, e, st, fr):
        outs = []
        for s, vals in self.seq([e.left] + list(e.comparators), st, fr):
            if is_exc(vals):
                outs.append((s, vals))
                continue
            conds = []
            for op, a, b in zip(e.ops, vals, vals[1:]):
                conds.append(self.cmp(s, fr, op, a, b))
            r = zand(*conds)
            outs.append((s, r if isinstance(r, bool) else SB(r)))
        return outs

    def cmp(self, st, fr, op, a, b):
        if isinstance(op, (ast.Eq, ast.Is)):
            if isinstance(op, ast.Is):
                return self.identical(a, b)
            return self.py_equal(st, fr, a, b)
        if isinstance(op, (ast.NotEq, ast.IsNot)):
            return znot(self.cmp(st, fr, ast.Eq() if isinstance(op, ast.NotEq) else ast.Is(), a, b))
        if isinstance(op, ast.In):
            return self.contains(st, fr, b, a)
        if isinstance(op, ast.NotIn):
            return znot(self.contains(st, fr, b, a))
        a, b = self.unwrap_opt(st, fr, a), self.unwrap_opt(st, fr, b)
        return compare(CMPOPS[type(op)], a, b)

    def unwrap_opt(self, st, fr, v):
        """Ordering comparison / arithmetic on an optional: None would be a TypeError."""
        if isinstance(v, SVal) and isinstance(v.kind, KOpt):
            if not fr.spec:
                self.oblige(st, '%s#typeerror[None in comparison]' % fr.prefix, z3.Not(v.t[0]))
                st.assume(z3.Not(v.t[0]))
            return SVal(v.kind.inner, v.t[1:])
        return v

    def identical(self, a, b):
        # `is`: identity for refs / None / enums / small constants; strings: see C15 note
        return equal(a, b)

    def py_equal(self, st, fr, a, b):
        ka = ops.kind_of(a)
        if isinstance(ka, KRef):
            # classes defining __eq__ are compared structurally by their own code
            pass
        return equal(a, b)

    def contains(self, st, fr, cont, item):
        if isinstance(cont, TupleVal):
            return zor(*[equal(item, x) for x in cont.items])
        if isinstance(cont, LocalDict):
            if isinstance(item, str):
                return item in cont.d
            return zor(*[equal(item, k) for k in cont.d])
        if isinstance(cont, (str,)) and isinstance(item, str):
            return item in cont
        if isinstance(cont, dict):
            if isinstance(item, SVal):
                return zor(*[equal(item, k) for k in cont])
            return item in cont
        k = ops.kind_of(cont)
        if item is None and isinstance(k, (KDict, KSet)) and not (isinstance(k.key, KRef) or k.key == KName):
            return False
        if isinstance(item, SVal) and isinstance(item.kind, KOpt) and isinstance(k, (KDict, KSet)):
            inner = SVal(item.kind.inner, item.t[1:])
            return zand(znot(item.t[0]), self.contains(st, fr, cont, inner))
        if isinstance(k, (KDict, KSet)) and (isinstance(k.key, KRef) or k.key == KName) \
                and not getattr(k.key, 'nullable', False) and isinstance(item, SVal):
            # keys of this container are never None: `None in d` is False
            has = ops.dict_has(cont, item) if isinstance(k, KDict) else ops.set_has(cont, item)
            return zand(item.z != 0, has)
        if isinstance(k, KDict):
            return ops.dict_has(cont, item)
        if isinstance(k, KSet):
            return ops.set_has(cont, item)
        if isinstance(k, KCounter):
            return ops.counter_get(cont, item).z != 0 if False else self.counter_contains(cont, item)
        if isinstance(k, KList):
            it = self.coerce_to(st, item, k.elem)
            return self.list_member(cont, cont.t[0], it)
        if k == KStr:
            return z3.Contains(lift(cont).z, lift(item, KStr).z)
        if isinstance(k, KRef) and (k.cls + '_contains') in self.reg.ufuncs:
            f, ks, rk = self.reg.ufuncs[k.cls + '_contains']
            return f(cont.z, self.coerce_to(st, item, ks[1]).z)
        if isinstance(k, KRef):
            sc = self.schema(k.cls)
            if sc.record and isinstance(item, str):
                # record key presence: declared optional keys carry a presence flag field
                if ('has_' + item) in sc.fields:
                    return self.read_field(st, st.heap, cont.z, k.cls, 'has_' + item).z
                return item in sc.fields
        raise CheckerError('`in` on %r' % (k,))

    def list_member(self, lst, n, item):
        """item in lst[:n] as a canonical recursive function Mem_kind(n, arrays.., item..)."""
        k = lst.kind
        key = ('mem', repr(k))
        if key not in self.recfuncs:
            sorts = [I] + [a.sort() for a in lst.t[1:]] + [t.sort() for t in item.t]
            F = z3.RecFunction('Mem_' + ''.join(ch for ch in repr(k.elem) if ch.isalnum()), *(sorts + [B]))
            x = z3.Int('$mx')
            arrs = [z3.Const('$ma%d' % i, a.sort()) for i, a in enumerate(lst.t[1:])]
            its = [z3.Const('$mi%d' % i, t.sort()) for i, t in enumerate(item.t)]
            eq = z3.And(*[z3.Select(a, x - 1) == t for a, t in zip(arrs, its)])
            z3.RecAddDefinition(F, [x] + arrs + its, z3.And(x > 0, z3.Or(eq, F(x - 1, *(arrs + its)))))
            self.recfuncs[key] = F
        F = self.recfuncs[key]
        self.rec_used = True
        return F(n, *(list(lst.t[1:]) + list(item.t)))

    def counter_contains(self, c, item):
        raise CheckerError('`in` on Counter unsupported')

    # -------------------------------------------------------------- strings
    def to_str(self, v):
        if isinstance(v, str):
            return z3.StringVal(v)
        if isinstance(v, bool):
            return z3.StringVal(str(v))
        if isinstance(v, int):
            return z3.StringVal(str(v))
        if v is None:
            return z3.StringVal('None')
        if isinstance(v, SVal):
            if v.kind == KStr:
                return v.z
            if v.kind == KInt:
                return self.int_to_str(v.z)
            if v.kind == KName:
                if z3.is_int_value(v.z):
                    # a name that is a string constant of the program: its text is that constant
                    for text_, n_ in ops._name_atoms.items():
                        if n_ == v.z.as_long():
                            return z3.StringVal(text_)
                self.ax_buffer.append(ops._atom(self.name_str(v.z)) == v.z)    # atom is the inverse of name_str
                return self.name_str(v.z)
        # opaque rendering (only ever used in messages)
        return z3.String(fresh_name('repr'))

    _name_str = ops._name_str

    def name_str(self, z):
        return self._name_str(z)

    def int_to_str(self, z):
        return z3.If(z >= 0, z3.IntToStr(z), z3.Concat(z3.StringVal('-'), z3.IntToStr(-z)))

    def str_percent(self, fmt, args):
        items = ops.tuple_items(args) if isinstance(args, TupleVal) else [args]
        if not isinstance(fmt, str):
            return SVal(KStr, [z3.String(fresh_name('fmt'))])
        parts = []
        i = 0
        it = iter(items)
        buf = ''
        while i < len(fmt):
            if fmt[i] == '%' and i + 1 < len(fmt):
                c = fmt[i + 1]
                if c == '%':
                    buf += '%'
                elif c in 'sdr':
                    if buf:
                        parts.append(z3.StringVal(buf))
                        buf = ''
                    parts.append(self.to_str(next(it)))
                else:
                    raise CheckerError('format spec %%%s' % c)
                i += 2
                continue
            buf += fmt[i]
            i += 1
        if buf:
            parts.append(z3.StringVal(buf))
        if not parts:
            return ''
        return SVal(KStr, [ops.str_concat(parts)])

    # -------------------------------------------------------------- sets / lists
    def set_binop(self, st, op, a, b):
        ka = ops.kind_of(a)
        kind = ka if isinstance(ka, KSet) else ops.kind_of(b)
        a = self.coerce_to(st, a, kind)
        b = self.coerce_to(st, b, kind)
        ks = kind.sorts()[0].domain()
        k = z3.Const(fresh_name('k'), ks)
        res = z3.Const(fresh_name('setop'), kind.sorts()[0])
        A, Bm = z3.Select(a.t[0], k), z3.Select(b.t[0], k)
        body = {'|': z3.Or(A, Bm), '&': z3.And(A, Bm), '-': z3.And(A, z3.Not(Bm)), '^': z3.Xor(A, Bm)}[op]
        # membership in an operand triggers the definition too (x in A  =>  what about x in A - B ?)
        st.assume(z3.ForAll([k], z3.Select(res, k) == body, patterns=[z3.Select(res, k), A, Bm]))
        return SVal(kind, [res])

    def list_concat(self, a, b):
        kind = a.kind
        n = a.t[0]
        res = fresh_val(kind, 'concat')
        j = z3.Int(fresh_name('j'))
        conds = [res.t[0] == n + b.t[0]]
        for ra, aa, ba in zip(res.t[1:], a.t[1:], b.t[1:]):
            conds.append(z3.ForAll([j], z3.Select(ra, j) == z3.If(j < n, z3.Select(aa, j), z3.Select(ba, j - n)),
                                   patterns=[z3.Select(ra, j)]))
        self.ax_buffer.extend(conds)
        return res

    # -------------------------------------------------------------- attribute
    def ev_Attribute(self, e, st, fr):
        outs = []
        for s, base in self.ev(e.value, st, fr):
            if is_exc(base):
                outs.append((s, base))
            else:
                outs += self.getattr(s, fr, base, e.attr)
        return outs

    def getattr(self, st, fr, base, attr):
        if isinstance(base, ModuleVal):
            return [(st, self.module_attr(base, attr))]
        if isinstance(base, ClassVal):
            return [(st, self.class_attr(base, attr))]
        if isinstance(base, SVal) and isinstance(base.kind, KRef):
            cname = base.kind.cls
            # method / property?
            mod = self.class_module(cname)
            if mod is not None and cname in mod.defs and not self.has_field(cname, attr):
                c, fn = frontend.find_method(mod, cname, attr)
                if fn is not None:
                    if frontend.is_property(fn):
                        f = FuncVal('repo', qual='%s:%s.%s' % (mod.name, c, attr), node=fn, module=mod,
                                    selfv=base, cls=c)
                        return self.call_value(st, fr, f, [], {})
                    if frontend.is_static(fn):
                        return [(st, FuncVal('repo', qual='%s:%s.%s' % (mod.name, c, attr), node=fn, module=mod, cls=c))]
                    f = FuncVal('repo', qual='%s:%s.%s' % (mod.name, c, attr), node=fn, module=mod,
                                selfv=base, cls=c)
                    f.py = cname      # static receiver class, for dynamic dispatch
                    return [(st, f)]
            if self.has_field(cname, attr):
                heap = st.heap
                def mk(s, base=base, cname=cname, attr=attr):
                    return self.read_field(s, s.heap, base.z, cname, attr)
                if getattr(base.kind, 'nullable', False) and not fr.spec:
                    return self.partial(st, fr, base.z != 0, 'AttributeError', mk)
                return [(st, mk(st))]
            if ('lib:%s.%s' % (cname, attr)) in self.reg.contracts:
                return [(st, FuncVal('builtin', qual='libmeth.%s.%s' % (cname, attr), selfv=base))]
            # bound library-like method on a record (dict API)
            sc = self.reg.classes.get(cname)
            if sc is not None and sc.record:
                return [(st, FuncVal('builtin', qual='record.' + attr, selfv=base))]
            raise CheckerError('unknown attribute %s.%s in %s' % (cname, attr, fr.qual))
        if isinstance(base, SVal) and isinstance(base.kind, KOpt):
            inner = SVal(base.kind.inner, base.t[1:])
            if fr.spec:
                return self.getattr(st, fr, inner, attr)
            t, f = self.fork(st, z3.Not(base.t[0]))
            outs = []
            if t is not None:
                outs += self.getattr(t, fr, inner, attr)
            if f is not None:
                outs.append((f, ExcVal('AttributeError')))
            return outs
        # methods of built-in values
        return [(st, FuncVal('builtin', qual='method.' + attr, selfv=base))]

    def class_attr(self, cv, attr):
        if cv.name in self.reg.enums:
            members = self.reg.enums[cv.name]['members']
            if attr in members:
                return SVal(KEnum(cv.name), [z3.IntVal(members.index(attr) + 1)])
        mod = frontend.module(cv.module) if cv.module else None
        if mod is not None and cv.name in mod.defs:
            cnode = mod.defs[cv.name]
            c, fn = frontend.find_method(mod, cv.name, attr)
            if fn is not None:
                return FuncVal('repo', qual='%s:%s.%s' % (mod.name, c, attr), node=fn, module=mod, cls=c)
            for stn in cnode.body:
                if isinstance(stn, ast.Assign) and any(isinstance(t, ast.Name) and t.id == attr for t in stn.targets):
                    frm = self.Frame(mod, mod.name + ':' + cv.name)
                    frm.spec = True
                    return self.ev1(stn.value, self.St(), frm)
        raise CheckerError('class attribute %s.%s' % (cv.name, attr))

    def module_attr(self, mv, attr):
        name = mv.name
        if name.startswith('$opaque:'):
            return FuncVal('builtin', qual='opaque.' + name[8:] + '.' + attr)
        if name.startswith('treadmill'):
            full = name + '.' + attr
            if frontend.module_exists(full):
                return ModuleVal(full)
            if frontend.module_exists(name):
                v = self.module_global(frontend.module(name), attr)
                if v is not NotImplemented:
                    return v
            raise CheckerError('unknown %s.%s' % (name, attr))
        return self.library_attr(name, attr)

    def library_attr(self, modname, attr):
        full = modname + '.' + attr
        if full in self.LIB_CONSTS:
            return self.LIB_CONSTS[full]
        if full in self.LIB_MODULES:
            return ModuleVal(full)
        return FuncVal('builtin', qual=full)

    # -------------------------------------------------------------- subscript
    def ev_Subscript(self, e, st, fr):
        outs = []
        if isinstance(e.slice, ast.Slice):
            parts = [e.value] + [x for x in (e.slice.lower, e.slice.upper, e.slice.step) if x is not None]
            for s, vals in self.seq(parts, st, fr):
                if is_exc(vals):
                    outs.append((s, vals))
                    continue
                it = iter(vals[1:])
                lo = next(it) if e.slice.lower is not None else None
                hi = next(it) if e.slice.upper is not None else None
                step = next(it) if e.slice.step is not None else None
                outs.append((s, self.slice(s, fr, vals[0], lo, hi, step)))
            return outs
        for s, vals in self.seq([e.value, e.slice], st, fr):
            if is_exc(vals):
                outs.append((s, vals))
            elif isinstance(vals[0], SVal) and getattr(vals[0].kind, 'default_cls', None) and not fr.spec:
                outs += self.defaultdict_get(s, fr, e.value, vals[0], vals[1])
            else:
                outs += self.getitem(s, fr, vals[0], vals[1])
        return outs

    def defaultdict_get(self, st, fr, base_expr, d, key):
        """collections.defaultdict.__getitem__: a missing key is created with the default factory."""
        outs = []
        tt, ff = self.fork(st, ops.dict_has(d, key))
        if tt is not None:
            outs += self.getitem(tt, fr, d, key)
        if ff is not None and d.kind.default_cls == '$value':
            obj = ops.empty_of(d.kind.val)
            self.fold_empty(ff, obj) if isinstance(d.kind.val, KDict) else None
            new = ops.dict_set(d, key, obj)
            self.fold_update(ff, fr, d, new, key, obj)
            for s3, oc in self.assign(base_expr, new, ff, fr):
                outs.append((s3, obj if oc[0] == 'next' else oc[1]))
            ff = None
        if ff is not None:
            for s2, obj in self.construct(ff, fr, ClassVal(d.kind.default_cls, self.reg.classes[d.kind.default_cls].module), [], {}):
                if is_exc(obj):
                    outs.append((s2, obj))
                    continue
                new = ops.dict_set(d, key, obj)
                self.fold_update(s2, fr, d, new, key, obj)
                for s3, oc in self.assign(base_expr, new, s2, fr):
                    outs.append((s3, obj if oc[0] == 'next' else oc[1]))
        return outs

    def getitem(self, st, fr, base, idx):
        if isinstance(base, SVal) and isinstance(base.kind, KOpt) and isinstance(base.kind.inner, (KList, KDict)) and fr.spec:
            base = SVal(base.kind.inner, base.t[1:])     # specs are total: guarded by `is not None` where it matters
        if isinstance(base, TupleVal):
            if isinstance(idx, int):
                return [(st, base.items[idx])]
            raise CheckerError('symbolic index into literal tuple')
        if isinstance(base, LocalDict):
            if isinstance(idx, SVal):
                raise CheckerError('symbolic key into literal dict in %s' % fr.qual)
            if idx in base.d:
                return [(st, base.d[idx])]
            if fr.spec:
                raise CheckerError('missing key %r in literal dict (spec)' % (idx,))
            return self.raise_exc(st, 'KeyError')
        if isinstance(base, dict):
            if not isinstance(idx, SVal):
                return [(st, base[idx])]
            # constant table indexed by symbolic key
            res = None
            items = list(base.items())
            ok = zor(*[equal(idx, k) for k, _ in items])
            def mk(s):
                r = items[-1][1]
                for k, v in reversed(items[:-1]):
                    r = ops.ite(asz(equal(idx, k)), v, r)
                return r
            return self.partial(st, fr, ok, 'KeyError', mk)
        if isinstance(base, str) and isinstance(idx, int):
            return [(st, base[idx])]
        k = ops.kind_of(base)
        if isinstance(k, KOpt) and fr.spec:
            base = SVal(k.inner, base.t[1:])      # total in specs (guarded by `is not None` there)
            k = k.inner
        if isinstance(k, KTuple) or isinstance(k, KVec):
            items = ops.tuple_items(base)
            if isinstance(idx, int):
                return [(st, items[idx])]
            raise CheckerError('symbolic index into tuple')
        if isinstance(k, KList):
            n = base.t[0]
            if isinstance(idx, int) and idx < 0:
                i = n + idx
            else:
                i = lift(idx, KInt).z
            ok = z3.And(i >= 0, i < n)
            def mk(s, i=i):
                v = ops.list_get(base, i)
                if not fr.spec:
                    self.tf_assume(s, self.type_facts(v, k.elem, s))
                else:
                    self.tf_assume(s, [z3.Implies(ok, f) for f in self.type_facts(v, k.elem, s)])
                return v
            return self.partial(st, fr, ok, 'IndexError', mk)
        if isinstance(k, KDict):
            ok = ops.dict_has(base, idx)
            def mk(s):
                v = ops.dict_get(base, idx)
                if not fr.spec:
                    self.tf_assume(s, self.type_facts(v, k.val, s))
                else:
                    self.tf_assume(s, [z3.Implies(ok, f) for f in self.type_facts(v, k.val, s)])
                return v
            return self.partial(st, fr, ok, 'KeyError', mk)
        if isinstance(k, KCounter):
            return [(st, ops.counter_get(base, idx))]
        if isinstance(k, KTotal):
            kt = ops.key_term(idx, k.key)
            return [(st, SVal(k.val, [z3.Select(a, kt) for a in base.t]))]
        if isinstance(k, KRef):
            sc = self.schema(k.cls)
            if sc.record and isinstance(idx, str):
                if ('has_' + idx) in sc.fields and not fr.spec:
                    ok = self.read_field(st, st.heap, base.z, k.cls, 'has_' + idx).z
                    return self.partial(st, fr, ok, 'KeyError',
                                        lambda s: self.read_field(s, s.heap, base.z, k.cls, idx))
                return [(st, self.read_field(st, st.heap, base.z, k.cls, idx))]
        if k == KStr:
            sz = lift(base).z
            n = z3.Length(sz)
            if isinstance(idx, int) and idx < 0:
                i = n + idx
            else:
                i = lift(idx, KInt).z
            ok = z3.And(i >= 0, i < n)
            return self.partial(st, fr, ok, 'IndexError', lambda s: SVal(KStr, [z3.SubString(sz, i, 1)]))
        if k == KAny and isinstance(idx, str):
            # a field of an opaque JSON payload: the projection any_get_<key>
            return [(st, SVal(KAny, [self.any_get_fn(idx)(base.z)]))]
        if k == KName and idx == 0 and 'fs_hidden' in self.reg.ufuncs:
            # first character of a (non-empty) name: all that is known about it is whether it is a dot (fs_hidden)
            hid = self.reg.ufuncs['fs_hidden'][0](base.z)
            oth = z3.Function('name_first_char', I, z3.StringSort())(base.z)
            st.assume(oth != z3.StringVal('.'))
            return [(st, SVal(KStr, [z3.If(hid, z3.StringVal('.'), oth)]))]
        raise CheckerError('subscript on %r in %s' % (k, fr.qual))

    def slice(self, st, fr, base, lo, hi, step):
        k = ops.kind_of(base)
        if isinstance(base, str):
            base = lift(base)
            k = KStr
        if k == KName:
            # a name atom sliced by a position: an uninterpreted function of (name, from, to); the same Python
            # expression in code and in a spec denotes the same term (used for 'app[app.index("#") + 1:]')
            if step is not None:
                raise CheckerError('name slice with step')
            f = self.recfuncs.setdefault('$name_slice', z3.Function('name_slice', I, I, I, I))
            a = z3.IntVal(0) if lo is None else lift(lo, KInt).z
            b = z3.IntVal(-1) if hi is None else lift(hi, KInt).z
            return SVal(KName, [f(base.z, a, b)])
        if k == KStr:
            if step is not None:
                raise CheckerError('string slice with step')
            sz = base.z
            n = z3.Length(sz)
            def norm(x, dflt):
                if x is None:
                    return dflt
                if isinstance(x, int):
                    return (n + x) if x < 0 else z3.IntVal(x)
                xz = lift(x, KInt).z
                return z3.If(xz < 0, n + xz, xz)
            a = norm(lo, z3.IntVal(0))
            b = norm(hi, n)
            a = z3.If(a < 0, 0, z3.If(a > n, n, a))
            b = z3.If(b < 0, 0, z3.If(b > n, n, b))
            return SVal(KStr, [z3.SubString(sz, a, z3.If(b - a < 0, 0, b - a))])
        if isinstance(base, TupleVal):
            if all(x is None or isinstance(x, int) for x in (lo, hi, step)):
                return TupleVal(base.items[slice(lo, hi, step)])
        if isinstance(k, KList):
            n = base.t[0]
            res = fresh_val(k, 'slice')
            j = z3.Int(fresh_name('j'))
            if step == -1 and lo is None and hi is None:
                st.assume(res.t[0] == n)
                for ra, aa in zip(res.t[1:], base.t[1:]):
                    st.assume(z3.ForAll([j], z3.Select(ra, j) == z3.Select(aa, n - 1 - j), patterns=[z3.Select(ra, j)]))
                return res
            if step is None:
                def norm(x, dflt):
                    if x is None:
                        return dflt
                    xz = lift(x, KInt).z if not isinstance(x, int) else z3.IntVal(x)
                    xz = z3.If(xz < 0, n + xz, xz)
                    return z3.If(xz < 0, 0, z3.If(xz > n, n, xz))
                a = norm(lo, z3.IntVal(0))
                b = norm(hi, n)
                st.assume(res.t[0] == z3.If(b - a < 0, 0, b - a))
                for ra, aa in zip(res.t[1:], base.t[1:]):
                    st.assume(z3.ForAll([j], z3.Select(ra, j) == z3.Select(aa, a + j), patterns=[z3.Select(ra, j)]))
                return res
        raise CheckerError('slice on %r' % (k,))
