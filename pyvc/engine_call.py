"""Calls: contracts, inlining, constructors, dispatch, spec-level functions."""
import ast
import z3

import frontend
import ops
from ops import SB, SI, SR, truthy, equal, zand, zor, znot, asz, lift
from core import (KAny, SVal, TupleVal, LocalDict, FuncVal, ClassVal, ModuleVal, ExcVal, KRef, KEnum, KName,
                  KInt, KReal, KBool, KStr, KOpt, KList, KDict, KSet, KCounter, KTuple, KExt, KVec, KVec3,
                  CheckerError, fresh_name, fresh_val, I, B, R)
from engine_expr import is_exc
from state import cls_of, ALIVE
from contracts import clause

MAX_INLINE_DEPTH = 12

_spec_cache = {}


class CallMixin:

    def parse_spec(self, text):
        if text not in _spec_cache:
            try:
                _spec_cache[text] = ast.parse(text.strip(), mode='eval').body
            except SyntaxError as ex:
                raise CheckerError('bad spec expression %r: %s' % (text, ex))
        return _spec_cache[text]

    # ---------------------------------------------------------------- Call node
    def ev_Call(self, e, st, fr):
        if self.is_log_call(e):
            self.stats['dropped'].add('logging call')
            return [(st, None)]
        # spec-level special forms (need unevaluated arguments)
        if fr.spec and isinstance(e.func, ast.Name):
            sp = getattr(self, 'spec_' + e.func.id, None)
            if sp is not None and e.func.id not in st.env and e.func.id not in fr.bound:
                return [(st, sp(e, st, fr))]
        # super(X, self).m(...)
        if (isinstance(e.func, ast.Attribute) and isinstance(e.func.value, ast.Call)
                and isinstance(e.func.value.func, ast.Name) and e.func.value.func.id == 'super'):
            return self.call_super(e, st, fr)
        # generator-consuming builtins: all(...)/any(...)/sum/min/max/list/set/tuple/dict over comprehensions
        if e.args and isinstance(e.args[0], (ast.GeneratorExp, ast.ListComp)) and isinstance(e.func, ast.Name):
            r = self.call_on_comprehension(e, st, fr)
            if r is not None:
                return r
        outs = []
        for s, fv in self.ev(e.func, st, fr):
            if is_exc(fv):
                outs.append((s, fv))
                continue
            # mutating container methods need the receiver as an lvalue
            if isinstance(fv, FuncVal) and fv.kind == 'builtin' and fv.qual.startswith('method.') and isinstance(e.func, ast.Attribute) \
                    and fv.qual.split('.', 1)[1] in self.MUTATORS:
                outs += self.call_container_method(e, s, fr, fv)
                continue
            arg_exprs = list(e.args)
            kw_names = [k.arg for k in e.keywords]
            if any(isinstance(a, ast.Starred) for a in arg_exprs) or None in kw_names:
                outs += self.call_star(e, s, fr, fv)
                continue
            for s2, vals in self.seq(arg_exprs + [k.value for k in e.keywords], s, fr):
                if is_exc(vals):
                    outs.append((s2, vals))
                    continue
                args = vals[:len(arg_exprs)]
                kwargs = dict(zip(kw_names, vals[len(arg_exprs):]))
                self._current_call_node = e
                outs += self.call_value(s2, fr, fv, args, kwargs, node=e)
        return outs

    def call_star(self, e, st, fr, fv):
        outs = []
        exprs = [a.value if isinstance(a, ast.Starred) else a for a in e.args]
        for s2, vals in self.seq(exprs + [k.value for k in e.keywords], st, fr):
            if is_exc(vals):
                outs.append((s2, vals))
                continue
            args = []
            for a, v in zip(e.args, vals):
                if isinstance(a, ast.Starred):
                    args += ops.tuple_items(v) if isinstance(v, (TupleVal, tuple, list)) else [('*', v)]
                else:
                    args.append(v)
            kwargs = {}
            for k, v in zip(e.keywords, vals[len(exprs):]):
                if k.arg is None:
                    if isinstance(v, LocalDict):
                        kwargs.update(v.d)
                    else:
                        raise CheckerError('**kwargs of symbolic dict')
                else:
                    kwargs[k.arg] = v
            outs += self.call_value(s2, fr, fv, args, kwargs, node=e)
        return outs

    def call_super(self, e, st, fr):
        sup = e.func.value
        if sup.args:
            cname = sup.args[0].id
        else:
            cname = fr.cls
        mname = e.func.attr
        selfv = st.env.get('self')
        mod = fr.module
        c, fn = frontend.find_method(mod, selfv.kind.cls if cname not in self.mro(selfv.kind.cls) else selfv.kind.cls,
                                     mname, after=cname)
        if fn is None:
            c, fn = frontend.find_method(mod, cname, mname, after=cname)
        if fn is None:
            # base class imported from another module: class Master(loader.Loader)
            cnode = mod.defs.get(cname)
            for b in (cnode.bases if cnode is not None else []):
                if isinstance(b, ast.Attribute) and isinstance(b.value, ast.Name) and b.value.id in mod.imports:
                    tgt = mod.imports[b.value.id]
                    full = '%s.%s' % tgt if isinstance(tgt, tuple) else tgt
                    if frontend.module_exists(full):
                        mod2 = frontend.module(full)
                        c, fn = frontend.find_method(mod2, b.attr, mname)
                        if fn is not None:
                            mod = mod2
                            break
        if fn is None:
            raise CheckerError('super().%s not found' % mname)
        f = FuncVal('repo', qual='%s:%s.%s' % (mod.name, c, mname), node=fn, module=mod, selfv=selfv, cls=c)
        f.py = None     # static dispatch
        outs = []
        for s2, vals in self.seq(list(e.args) + [k.value for k in e.keywords], st, fr):
            if is_exc(vals):
                outs.append((s2, vals))
                continue
            args = vals[:len(e.args)]
            kwargs = dict(zip([k.arg for k in e.keywords], vals[len(e.args):]))
            outs += self.call_value(s2, fr, f, args, kwargs, node=e)
        return outs

    # ---------------------------------------------------------------- dispatch
    def call_value(self, st, fr, fv, args, kwargs, node=None):
        if isinstance(fv, ClassVal):
            return self.construct(st, fr, fv, args, kwargs)
        if isinstance(fv, SVal) and fv.kind.name == 'Callable':
            self.stats['deps_used'].add('callback parameter (no modelled effect)')
            return [(st, None)]
        if not isinstance(fv, FuncVal):
            raise CheckerError('call of non-function %r in %s' % (fv, fr.qual))
        if fv.kind == 'builtin':
            return self.call_builtin(st, fr, fv, args, kwargs)
        if fv.kind == 'spec':
            return [(st, self.call_spec(st, fr, fv.qual, args, kwargs))]
        if fv.kind == 'lambda':
            return self.call_lambda(st, fr, fv, args)
        # repo function
        if fv.selfv is not None and fv.py not in (None, 'nested') and isinstance(fv.selfv, SVal):
            # dynamic dispatch on the receiver's class tag
            return self.dispatch(st, fr, fv, args, kwargs)
        return self.call_repo(st, fr, fv, args, kwargs)

    def dispatch(self, st, fr, fv, args, kwargs):
        static = fv.py
        mname = fv.node.name
        mod = fv.module
        impls = {}
        for c in self.subclasses(static):
            if self.reg.classes[c].abstract:
                continue
            ic, fn = frontend.find_method(mod, c, mname)
            if fn is not None:
                impls.setdefault(ic, []).append(c)
        if len(impls) <= 1:
            return self.call_repo(st, fr, fv, args, kwargs)
        outs = []
        r = fv.selfv.z
        for ic, classes in impls.items():
            cond = z3.Or(*[cls_of(r) == self.class_id(c) for c in classes])
            s2 = st.copy()
            s2.assume(cond)
            if not self.feasible(s2):
                continue
            _, fn = frontend.find_method(mod, ic, mname)
            # narrow receiver type when the implementing class is a proper subclass
            recv = fv.selfv
            if len(classes) == 1:
                recv = SVal(KRef(classes[0]), recv.t)
            f2 = FuncVal('repo', qual='%s:%s.%s' % (mod.name, ic, mname), node=fn, module=mod, selfv=recv, cls=ic)
            outs += self.call_repo(s2, fr, f2, list(args), dict(kwargs))
        return outs

    def bind_args(self, fnode, selfv, args, kwargs, st, frm):
        """Bind call arguments to parameter names (defaults evaluated in callee module)."""
        a = fnode.args
        params = [p.arg for p in a.args]
        env = {}
        pos = list(args)
        if selfv is not None and params:
            env[params[0]] = selfv
            params = params[1:]
        if len(pos) > len(params) and a.vararg is None:
            raise CheckerError('too many arguments for %s' % fnode.name)
        for p, v in zip(params, pos):
            env[p] = v
        if a.vararg is not None:
            env[a.vararg.arg] = TupleVal(pos[len(params):])
        extra_kw = {}
        for k, v in kwargs.items():
            if k in env:
                raise CheckerError('duplicate argument %s' % k)
            if a.kwarg is not None and k not in params and k not in [p.arg for p in a.kwonlyargs]:
                extra_kw[k] = v
            else:
                env[k] = v
        if a.kwarg is not None:
            env[a.kwarg.arg] = LocalDict(extra_kw)
        defaults = dict(zip([p.arg for p in a.args][len(a.args) - len(a.defaults):], a.defaults))
        for p in params:
            if p not in env:
                if p in defaults:
                    env[p] = self.ev1(defaults[p], self.St(), frm)
                else:
                    raise CheckerError('missing argument %s for %s' % (p, fnode.name))
        for p, d in zip(a.kwonlyargs, a.kw_defaults):
            if p.arg not in env:
                env[p.arg] = self.ev1(d, self.St(), frm)
        return env

    REPO_MODELS = {'treadmill.fs:write_safe': 'model_write_safe',
                   'treadmill.zknamespace:join_zookeeper_path': 'model_join_zookeeper_path',
                   'treadmill.zkutils:with_retry': 'model_with_retry'}

    def call_repo(self, st, fr, fv, args, kwargs):
        qual = fv.qual
        if qual in self.REPO_MODELS and qual not in self.reg.contracts:
            # a dependency of the code under contract that is modelled (engine_fs), not executed
            self.stats['deps_used'].add(qual + ' (modelled)')
            return getattr(self, self.REPO_MODELS[qual])(st, fr, args, kwargs)
        c = self.reg.contracts.get(qual)
        frm = self.Frame(fv.module, qual, fv.cls)
        frm.spec = True
        env = self.bind_args(fv.node, fv.selfv, args, kwargs, st, frm)
        if c is not None and not c.inline and not (fr.spec and c.pure is False and False):
            return self.apply_contract(st, fr, c, env, fv)
        if fr.spec:
            # spec mode may call real pure repo functions by inlining them totally
            pass
        return self.inline(st, fr, fv, env)

    def call_lambda(self, st, fr, fv, args):
        node = fv.node
        params = [p.arg for p in node.args.args]
        frm = self.Frame(fv.module, fv.qual, fv.cls, spec=fr.spec)
        frm.closure = dict(fv.closure or {})
        frm.closure.update(dict(zip(params, args)))
        frm.old = fr.old
        frm.loop_old = fr.loop_old
        frm.result = fr.result
        frm.bound = dict(fr.bound)
        for p in params:
            frm.bound.pop(p, None)
        frm.contract = fr.contract
        frm.prefix = fr.prefix
        saved = st.env
        st.env = {}
        outs = self.ev(node.body, st, frm)
        for s, _ in outs:
            s.env = saved if s is st else dict(saved)
        return outs

    def inline(self, st, fr, fv, env):
        if fr.depth > MAX_INLINE_DEPTH:
            raise CheckerError('inline depth exceeded at %s (recursive function without contract?)' % fv.qual)
        if fv.qual == getattr(self, 'current_qual', None):
            raise CheckerError('recursive call of %s needs its contract' % fv.qual)
        self.stats['inlined'].add(fv.qual)
        frm = self.Frame(fv.module, fv.qual, fv.cls, spec=fr.spec, parent=fr)
        frm.closure = dict(fv.closure or {})
        if fv.py == 'nested':
            # nested def: sees the enclosing function's current locals
            frm.closure.update(st.env)
        frm.fnode = fv.node
        frm.contract = self.reg.contracts.get(fv.qual)
        frm.contract_qual = fv.qual
        frm.old = fr.old
        frm.prefix = fr.prefix + '>' + fv.qual.split(':')[-1]
        saved = st.env
        st.env = dict(env)
        outs = []
        for s, oc in self.ex(fv.node.body, st, frm):
            s.env = dict(saved) if s is not st else saved
            if oc[0] == 'return':
                outs.append((s, oc[1]))
            elif oc[0] == 'raise':
                outs.append((s, oc[1]))
            elif oc[0] == 'next':
                outs.append((s, None))
            else:
                raise CheckerError('loop control escaped function %s' % fv.qual)
        return outs

    # ---------------------------------------------------------------- contracts at call sites
    def spec_frame(self, fv_module, qual, cls, env, old=None, result=None, ghost=None):
        f = self.Frame(fv_module, qual, cls, spec=True)
        f.closure = dict(env)
        f.old = old
        f.result = result
        return f

    def contract_env(self, st, c, env, ctypes=None):
        """Coerce bound arguments to the kinds the contract declares."""
        out = {}
        ctypes = ctypes or c.types
        for k, v in env.items():
            if k in ctypes:
                kind = self.reg.kind(ctypes[k])
                if isinstance(v, SVal) and isinstance(v.kind, KOpt) and not isinstance(kind, KOpt):
                    # passing an optional where a value is expected: must not be None here
                    self.oblige(st, '%s#call[%s].arg[%s].not_none' % (self.current_qual, c.qual.split(':')[-1], k),
                                z3.Not(v.t[0]))
                    v = SVal(v.kind.inner, v.t[1:])
                try:
                    v = self.coerce_to(st, v, kind)
                except CheckerError as ex:
                    raise CheckerError('argument %s of %s: %s' % (k, c.qual, ex))
            out[k] = v
        return out

    def apply_contract(self, st, fr, c, env, fv):
        self._site_node = getattr(self, '_current_call_node', None)    # before specs are evaluated (they contain calls)
        if c.assumed:
            self.stats['assumed_contracts'].add(c.qual)
        n = fr.call_counter[0]
        fr.call_counter[0] += 1
        short = c.qual.split(':')[-1]
        for g in c.ghost:
            if g not in env:
                if isinstance(c.ghost[g], tuple):
                    gf = self.Frame(fr.module, fr.qual, fr.cls, spec=True)
                    gf.closure = fr.closure
                    gf.bound = fr.bound
                    env[g] = self.ev1(self.parse_spec(c.ghost[g][1]), st, gf)
                elif g in st.env:
                    env[g] = st.env[g]
                elif g in fr.closure:
                    env[g] = fr.closure[g]
                elif g in fr.bound:
                    env[g] = fr.bound[g]
                else:
                    raise CheckerError('ghost argument %s of %s not available at call site in %s' % (g, c.qual, fr.qual))
        ctypes = dict(c.types)
        ctypes.update({g: (k[0] if isinstance(k, tuple) else k) for g, k in c.ghost.items()})
        env = self.contract_env(st, c, env, ctypes)
        if 'zk_env' in c.modifies and not fr.spec:
            self.zk_env_step(st)          # the environment moves first; old() in the contract is the state after it
        pre_heap = dict(st.heap)
        sf = self.spec_frame(fv.module, c.qual, fv.cls, env, old=(pre_heap, env))
        saved = st.env
        st.env = {}
        try:
            if not fr.spec:
                for j, text, _t in self.clauses(c.requires):
                    v = self.ev1(self.parse_spec(text), st, sf)
                    self.oblige(st, '%s#call[%s].requires[%s]' % (fr.prefix, short, j), truthy(v), {'text': text})
                    st.assume(asz(truthy(v)))
            self.site_hook(st, fr, c, saved, env)
            outs = []
            # exceptional outcomes
            for ename, spec in c.raises.items():
                s2 = st.copy()
                self.havoc_modifies(s2, c, sf, pre_heap)
                sf2 = self.spec_frame(fv.module, c.qual, fv.cls, env, old=(pre_heap, env))
                ens = spec if isinstance(spec, (list, tuple)) else [spec]
                for _, text, _t in self.clauses(ens):
                    s2.assume(asz(truthy(self.ev1(self.parse_spec(text), s2, sf2))))
                s2.env = dict(saved)
                if self.feasible(s2):
                    outs.append((s2, ExcVal(ename)))
            # normal outcome
            self.havoc_modifies(st, c, sf, pre_heap)
            res = None
            if 'return' in c.types:
                rk = self.reg.kind(c.types['return'])
                res = fresh_val(rk, 'ret_' + short.replace('.', '_'))
                self.tf_assume(st, self.type_facts(res, rk, st))
            sf3 = self.spec_frame(fv.module, c.qual, fv.cls, env, old=(pre_heap, env), result=res)
            for g, (gk, _gexpr) in c.ghost_out.items():
                gv = fresh_val(self.reg.kind(gk), 'gout_' + g)     # existential witness named by the contract
                self.tf_assume(st, self.type_facts(gv, self.reg.kind(gk), st))
                sf3.closure[g] = gv
            for _, text, _t in self.clauses(c.ensures):
                st.assume(asz(truthy(self.ev1(self.parse_spec(text), st, sf3))))
        finally:
            st.env = saved
        if self.feasible(st):
            outs.append((st, res))
        return outs

    def site_hook(self, st, fr, c, caller_env, callee_env=None):
        """Call-site clauses of the sidecar: assertions over the caller's locals at a call of `c`
        (`site(caller, callee, ordinal, asserts=[...])`), evaluated in the pre-call state."""
        if fr.spec:
            return
        short = c.qual.split(':')[-1]
        key0 = (fr.contract_qual if hasattr(fr, 'contract_qual') else fr.qual, short)
        sites = [s_ for s_ in self.reg.sites if (s_['caller'], s_['callee']) == key0]
        if not sites:
            return
        counter = fr.__dict__.setdefault('site_counter', {})
        cf = self.Frame(fr.module, fr.qual, fr.cls, spec=True)
        cf.closure = dict(fr.closure)
        cf.closure.update(caller_env)
        # the arguments the callee receives are visible as arg_<parameter>
        cf.closure.update({'arg_' + k_: v_ for k_, v_ in (callee_env or {}).items() if isinstance(k_, str)})
        cf.old = fr.old
        cf.bound = dict(fr.bound)
        node_ord = self.call_ordinal(fr, short)
        for s_ in sites:
            if s_['ordinal'] is not None and s_['ordinal'] != node_ord:
                continue
            self.__dict__.setdefault('fired_sites', set()).add((s_['caller'], s_['callee'], s_['ordinal']))
            for j, text, tags in self.clauses(s_['asserts']):
                v = self.ev1(self.parse_spec(text), st, cf)
                self.oblige(st, '%s#site[%s@%s].%s' % (fr.prefix, short, node_ord, j), truthy(v), {'text': text, 'tags': tags})
                st.assume(asz(truthy(v)))

    def call_ordinal(self, fr, short):
        """Ordinal of the call currently being applied among the calls to `short` in the function source."""
        node = getattr(self, '_site_node', None)
        fn = getattr(fr, 'fnode', None)
        if node is None or fn is None:
            return 0
        name = short.split('.')[-1]
        calls = []
        for n in ast.walk(fn):
            if isinstance(n, ast.Call):
                f = n.func
                fname = f.attr if isinstance(f, ast.Attribute) else (f.id if isinstance(f, ast.Name) else None)
                if fname == name:
                    calls.append(n)
        calls.sort(key=lambda n: (n.lineno, n.col_offset))      # source order
        for k, n in enumerate(calls):
            if n is node:
                return k
        return -1

    def havoc_modifies(self, st, c, sf, pre_heap):
        """modifies entries: 'expr.field' (one location) | ('Class.field', 'lambda r: pred') | 'alloc'."""
        for m in c.modifies:
            if m == 'fs':
                from engine_fs import FS_KIND, FS_TDIR, FS_TNAME, FS_CONTENT, FS_CTIME, AA, AAR
                for key in (FS_KIND, FS_TDIR, FS_TNAME, FS_CONTENT):
                    st.heap[key] = z3.Const(fresh_name('fs'), z3.ArraySort(I, AA))
                st.heap[FS_CTIME] = z3.Const(fresh_name('fsct'), z3.ArraySort(I, AAR))
                continue
            if m == 'zk_env':
                continue
            if m == 'zk':
                for key, rng in self.ZK_KEYS.values():
                    st.heap[key] = z3.Const(fresh_name('zk'), z3.ArraySort(I, z3.ArraySort(z3.StringSort(), rng)))
                continue
            if m == 'clock':
                key = ('$clock', 0)
                arr = self.H.get(st.heap, key, R)
                t = z3.Real(fresh_name('clk'))
                st.assume(t >= z3.Select(arr, 0))       # the callee may read the clock: it only advances
                st.heap[key] = z3.Store(arr, 0, t)
                continue
            if m == 'alloc':
                al = self.alive_arr(st.heap)
                new = z3.Const(fresh_name('alive'), al.sort())
                r = z3.Int(fresh_name('r'))
                st.assume(z3.ForAll([r], z3.Implies(z3.Select(al, r), z3.Select(new, r)), patterns=[z3.Select(al, r)]))
                st.heap[ALIVE] = new
                continue
            if isinstance(m, tuple):
                cf, predtext = m
                cname, fname = cf.split('.')
                dc, kind = self.field_decl(cname, fname)
                r = z3.Int(fresh_name('r'))
                sf.bound = dict(sf.bound)
                pred = self.ev1(self.parse_spec(predtext), st, sf)
                saved_heap = st.heap
                st.heap = dict(pre_heap)
                pv = truthy(self.call_lambda(st, sf, pred, [SVal(KRef(cname), [r])])[0][1])
                st.heap = saved_heap
                for i, sort in enumerate(kind.sorts()):
                    key = ('%s.%s' % (dc, fname), i)
                    oldarr = self.H.get(pre_heap, key, sort)
                    cur = self.H.get(st.heap, key, sort)
                    new = z3.Const(fresh_name('Hc_%s_%s' % (dc, fname)), cur.sort())
                    st.assume(z3.ForAll([r], z3.Implies(z3.Not(asz(pv)), z3.Select(new, r) == z3.Select(cur, r)),
                                        patterns=[z3.Select(new, r)]))
                    st.heap[key] = new
                continue
            node = self.parse_spec(m)
            if not isinstance(node, ast.Attribute):
                raise CheckerError('modifies entry %r' % (m,))
            saved_heap = st.heap
            st.heap = dict(pre_heap)
            base = self.ev1(node.value, st, sf)
            st.heap = saved_heap
            if not (isinstance(base, SVal) and isinstance(base.kind, KRef)):
                raise CheckerError('modifies base not an object: %r' % (m,))
            dc, kind = self.field_decl(base.kind.cls, node.attr)
            if dc is None:
                raise CheckerError('modifies: unknown field %r' % (m,))
            for i, sort in enumerate(kind.sorts()):
                key = ('%s.%s' % (dc, node.attr), i)
                cur = self.H.get(st.heap, key, sort)
                st.heap[key] = z3.Store(cur, base.z, z3.Const(fresh_name('hv_' + node.attr), sort))

    # ---------------------------------------------------------------- constructors
    def construct(self, st, fr, cv, args, kwargs):
        name = cv.name
        if name in self.EXC_NAMES or (cv.module is None and name not in self.reg.classes):
            return [(st, ExcVal(name, args=tuple(args)))]
        if name in self.reg.enums:
            # Enum(value): members whose value is their own name (scheduler.State); a literal picks the member, an
            # opaque payload field goes through the uninterpreted decoder tok_<enum> (a stored value is a member)
            members = self.reg.enums[name]['members']
            if len(args) == 1 and isinstance(args[0], str) and args[0] in members:
                return [(st, SVal(KEnum(name), [z3.IntVal(members.index(args[0]) + 1)]))]
            if len(args) == 1 and isinstance(args[0], SVal) and args[0].kind == KAny:
                dec = z3.Function('tok_' + name.lower(), I, I)(args[0].z)
                st.assume(z3.And(dec >= 1, dec <= len(members)))
                return [(st, SVal(KEnum(name), [dec]))]
            raise CheckerError('enum construction')
        mod = frontend.module(cv.module) if cv.module else None
        if name not in self.reg.classes:
            # exception classes defined in the repo
            if mod is not None and name in mod.defs:
                bases = [ast.unparse(b) for b in mod.defs[name].bases]
                return [(st, ExcVal(name, args=tuple(args)))]
            raise CheckerError('no schema for class %s' % name)
        ref = self.alloc(st, name)
        if mod is None or name not in mod.defs:
            return [(st, ref)]
        c, init = frontend.find_method(mod, name, '__init__')
        if init is None:
            return [(st, ref)]
        f = FuncVal('repo', qual='%s:%s.__init__' % (mod.name, c), node=init, module=mod, selfv=ref, cls=c)
        outs = []
        for s, r in self.call_repo(st, fr, f, args, kwargs):
            outs.append((s, r if is_exc(r) else ref))
        return outs

    # ---------------------------------------------------------------- spec functions / forms
    def call_spec(self, st, fr, name, args, kwargs):
        node, opts = self.reg.specs[name]
        params = [p.arg for p in node.args.args]
        env = dict(zip(params, args))
        env.update(kwargs)
        frm = self.Frame(None, 'spec:' + name, None, spec=True)
        frm.closure = env
        frm.old = fr.old
        frm.loop_old = fr.loop_old
        frm.result = fr.result
        frm.depth = fr.depth + 1
        if frm.depth > 40:
            raise CheckerError('spec recursion too deep in %s' % name)
        saved = st.env
        st.env = {}
        try:
            outs = self.ex(node.body, st, frm)
        finally:
            st.env = saved
        rets = [(s, oc) for s, oc in outs]
        if len(rets) == 1 and rets[0][1][0] == 'return':
            return rets[0][1][1]
        # spec functions with if/return chains: merge
        res = None
        for s, oc in reversed(rets):
            if oc[0] != 'return':
                raise CheckerError('spec function %s must return on all paths' % name)
            extra = [c for c in s.pc[len(st.pc):]]
            cond = z3.And(*extra) if extra else z3.BoolVal(True)
            res = oc[1] if res is None else ops.ite(cond, oc[1], res)
        return res

    def with_heap(self, st, fr, heap_env, node):
        if heap_env is None:
            raise CheckerError('old() used where no pre-state exists')
        heap, env = heap_env
        saved_h, saved_c, saved_e = st.heap, fr.closure, st.env
        st.heap = dict(heap)
        clo = dict(fr.closure)
        if env is not None:
            clo.update({k: v for k, v in env.items()})
        fr.closure = clo
        st.env = {k: v for k, v in saved_e.items() if k not in (env or {})}
        self.in_old += 1
        try:
            return self.ev1(node, st, fr)
        finally:
            self.in_old -= 1
            st.heap, fr.closure, st.env = saved_h, saved_c, saved_e

    def spec_old(self, e, st, fr):
        return self.with_heap(st, fr, fr.old, e.args[0])

    def spec_at_loop_entry(self, e, st, fr):
        return self.with_heap(st, fr, fr.loop_old, e.args[0])

    def spec_implies(self, e, st, fr):
        a = truthy(self.ev1(e.args[0], st, fr))
        b = truthy(self.ev1(e.args[1], st, fr))
        r = zor(znot(a), b)
        return r if isinstance(r, bool) else SB(r)

    def spec_iff(self, e, st, fr):
        a = asz(truthy(self.ev1(e.args[0], st, fr)))
        b = asz(truthy(self.ev1(e.args[1], st, fr)))
        return SB(a == b)

    def quant(self, e, st, fr, is_forall):
        lam = e.args[0]
        pats_src = [k.value for k in e.keywords if k.arg == 'pat']
        kinds = [self.reg.kind(a.value) for a in e.args[1:len(lam.args.args) + 1]]
        if len(kinds) != len(lam.args.args):
            raise CheckerError('quantifier needs one kind string per variable')
        bvs = []
        saved = fr.bound
        fr.bound = dict(fr.bound)
        facts = []
        for p, k in zip(lam.args.args, kinds):
            leaves = [z3.Const(fresh_name('q_' + p.arg), srt) for srt in k.sorts()]
            bvs += leaves
            v = SVal(k, leaves)
            fr.bound[p.arg] = v
            if not isinstance(k, KRef):
                facts += self.type_facts(v, k, st)
        b = self.push_binder(bvs)
        patterns = []
        try:
            body = asz(truthy(self.ev1(lam.body, st, fr)))
            for psrc in pats_src:
                items = psrc.elts if isinstance(psrc, (ast.List, ast.Tuple)) else [psrc]
                terms = []
                for it in items:
                    pv = self.ev1(it, st, fr)
                    terms.append(lift(pv).t[0])
                patterns.append(z3.MultiPattern(*terms) if len(terms) > 1 else terms[0])
            self.flush_axioms(st)
        finally:
            fr.bound = saved
            self.close_binder(st, b)
        if facts:
            body = z3.Implies(z3.And(*facts), body) if is_forall else z3.And(z3.And(*facts), body)
        if patterns:
            return SB(z3.ForAll(bvs, body, patterns=patterns) if is_forall else z3.Exists(bvs, body, patterns=patterns))
        return SB(z3.ForAll(bvs, body) if is_forall else z3.Exists(bvs, body))

    def spec_forall(self, e, st, fr):
        return self.quant(e, st, fr, True)

    def spec_exists(self, e, st, fr):
        return self.quant(e, st, fr, False)

    def range_fold(self, e, st, fr, mode):
        """sum_range / any_range / all_range(lambda j, p1.., pk: body, n, a1.., ak): a recursive
        function of n with explicit parameters p (any kinds, flattened) bound to the arguments a,
        plus implicit parameters for enclosing quantified variables occurring in the body."""
        lam = e.args[0]
        n = lift(self.ev1(e.args[1], st, fr), KInt).z
        extra_args = [self.ev1(a, st, fr) for a in e.args[2:]]
        pnames = [a.arg for a in lam.args.args]
        if len(pnames) != 1 + len(extra_args):
            raise CheckerError('range fold: lambda takes %d params, %d args given' % (len(pnames), 1 + len(extra_args)))
        j = z3.Int(fresh_name('sj'))
        saved = fr.bound
        fr.bound = dict(fr.bound)
        fr.bound[pnames[0]] = SI(j)
        formal_leaves = []
        actual_leaves = []
        for pn, av in zip(pnames[1:], extra_args):
            if isinstance(av, TupleVal):
                av = ops.pack_tuple(av.items)
            av = lift(av)
            fv_ = fresh_val(av.kind, 'fp_' + pn)
            fr.bound[pn] = fv_
            formal_leaves += list(fv_.t)
            actual_leaves += list(av.t)
        scope = self.scope_vars()
        b = self.push_binder([j] + formal_leaves)
        try:
            body = self.ev1(lam.body, st, fr)
            self.flush_axioms(st)
        finally:
            fr.bound = saved
            self.pop_binder(b)      # typing facts of fold bodies are dropped (body is total)
        if mode != 'sum':
            body = SB(asz(truthy(body)))
        body = lift(body)
        sort = body.z.sort()
        from engine_base import const_ids
        used = const_ids(body.z, set(v.get_id() for v in scope))
        implicit = [v for v in scope if v.get_id() in used]
        allp = [j] + formal_leaves + implicit
        canon = [z3.Const('$rv%d_%s' % (i, str(v.sort()).replace(' ', '')), v.sort()) for i, v in enumerate(allp)]
        cb = z3.substitute(body.z, *zip(allp, canon))
        key = (mode, cb.get_id())
        if key not in self.recfuncs:
            self.recfuncs[key] = define_range_fold(mode, canon, cb, sort)
            self._keep = getattr(self, '_keep', []) + [cb]
        F = self.recfuncs[key]
        self.rec_used = True
        return SVal(body.kind, [F(n, *(actual_leaves + implicit))])


    def spec_sum_range(self, e, st, fr):
        return self.range_fold(e, st, fr, 'sum')

    def spec_any_range(self, e, st, fr):
        return self.range_fold(e, st, fr, 'any')

    def spec_all_range(self, e, st, fr):
        return self.range_fold(e, st, fr, 'all')

    def spec_ite(self, e, st, fr):
        c = truthy(self.ev1(e.args[0], st, fr))
        return ops.ite(c, self.ev1(e.args[1], st, fr), self.ev1(e.args[2], st, fr))

# ---------------------------------------------------------------------------------------------------------------
# Recursive spec functions over an index range.  `fuel` encoding (default): an uninterpreted function with a fuel
# argument and two axioms -- F(S(f), n, p) == step(F(f, n-1, p)) and F(S(f), n, p) == F(f, n, p) -- so that a term
# written with fuel 2 can be unfolded exactly twice and all fuels denote the same value.  This replaces z3's
# define-fun-rec, whose open-ended unfolding made verdicts depend on the solver seed (DESIGN 0.9).
import os as _os
REC_AXIOMS = {}          # function name -> [axioms]; added to every query that mentions the function
_FUEL = None


def fuel_sort():
    global _FUEL
    if _FUEL is None:
        d = z3.Datatype('Fuel')
        d.declare('FZ')
        d.declare('FS', ('pred', d))
        _FUEL = d.create()
    return _FUEL


def define_range_fold(mode, canon, cb, sort):
    name = fresh_name({'sum': 'Sum', 'any': 'Any', 'all': 'All'}[mode])
    idx = canon[0]
    prev = z3.substitute(cb, (idx, idx - 1))
    if _os.environ.get('VERIF_RECFUN') == 'native':
        F = z3.RecFunction(name, *([c.sort() for c in canon] + [sort]))
        rec = F(idx - 1, *canon[1:])
        if mode == 'sum':
            zero = z3.IntVal(0) if sort == I else z3.RealVal(0)
            dfn = z3.If(idx <= 0, zero, rec + prev)
        elif mode == 'any':
            dfn = z3.And(idx > 0, z3.Or(prev, rec))
        else:
            dfn = z3.Or(idx <= 0, z3.And(prev, rec))
        z3.RecAddDefinition(F, canon, dfn)
        return F
    fs = fuel_sort()
    G = z3.Function(name, fs, *([c.sort() for c in canon] + [sort]))
    f = z3.Const('$fuel', fs)
    lhs = G(fs.FS(f), *canon)
    rec = G(f, idx - 1, *canon[1:])
    if mode == 'sum':
        zero = z3.IntVal(0) if sort == I else z3.RealVal(0)
        dfn = z3.If(idx <= 0, zero, rec + prev)
    elif mode == 'any':
        dfn = z3.And(idx > 0, z3.Or(prev, rec))
    else:
        dfn = z3.Or(idx <= 0, z3.And(prev, rec))
    REC_AXIOMS[name] = [z3.ForAll([f] + list(canon), lhs == dfn, patterns=[lhs]),
                        z3.ForAll([f] + list(canon), lhs == G(f, *canon), patterns=[lhs])]
    two = fs.FS(fs.FS(fs.FZ))
    return lambda n, *args: G(two, n, *args)
