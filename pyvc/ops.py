"""Operations on symbolic values (truthiness, equality, arithmetic, containers)."""
import z3

from core import (KAny, KBits, KTotal, SVal, TupleVal, LocalDict, KInt, KReal, KBool, KStr, KName, KRef, KEnum,
                  KOpt, KExt, KExtReal, KTuple, KVec, KVec3, KList, KDict, KSet, KCounter,
                  CheckerError, fresh_val, fresh_name, Kind, FuncVal, ClassVal, ModuleVal, I, R, B, S)

INF = float('inf')


def is_const(v):
    return not isinstance(v, (SVal,))


def zint(n):
    return z3.IntVal(n)


def zreal(x):
    if isinstance(x, float):
        if x != x or x in (INF, -INF):
            raise CheckerError('non-finite float constant in real context')
        return z3.RealVal(repr(x))
    return z3.RealVal(x)


def zbool(b):
    return z3.BoolVal(bool(b))


def mk(kind, *terms):
    return SVal(kind, terms)


def SB(t):
    return SVal(KBool, [t])


def SI(t):
    return SVal(KInt, [t])


def SR(t):
    return SVal(KReal, [t])


def lift(v, kind=None):
    """Lift a concrete Python constant to an SVal (optionally of a given kind)."""
    if isinstance(v, SVal):
        if kind is None or v.kind == kind:
            return v
        return coerce(v, kind)
    if kind is None:
        if isinstance(v, bool):
            return SB(zbool(v))
        if isinstance(v, int):
            return SI(zint(v))
        if isinstance(v, float):
            if v == INF:
                return SVal(KExtReal, [zbool(True), zreal(0)])
            return SR(zreal(v))
        if isinstance(v, str):
            return SVal(KStr, [z3.StringVal(v)])
        raise CheckerError('cannot lift %r without a kind' % (v,))
    return coerce_const(v, kind)


def coerce_const(v, kind):
    if isinstance(kind, KOpt):
        if v is None:
            return SVal(kind, [zbool(True)] + [default_term(s) for s in kind.inner.sorts()])
        inner = coerce_const(v, kind.inner)
        return SVal(kind, [zbool(False)] + list(inner.t))
    if v is None:
        if isinstance(kind, (KRef, KEnum)) or kind == KName:
            return SVal(kind, [zint(0)])
        raise CheckerError('None where %r expected' % kind)
    if kind == KInt:
        if isinstance(v, bool):
            return SI(zint(1 if v else 0))
        if isinstance(v, int):
            return SI(zint(v))
    if kind == KBits and isinstance(v, int):
        return SVal(KBits, [z3.BitVecVal(v, 64)])
    if kind == KReal:
        if isinstance(v, (int, float)) and not isinstance(v, bool):
            return SR(zreal(v))
    if kind == KBool and isinstance(v, bool):
        return SB(zbool(v))
    if kind == KStr and isinstance(v, str):
        return SVal(KStr, [z3.StringVal(v)])
    if kind == KName and isinstance(v, str):
        return SVal(KName, [name_atom(v)])
    if isinstance(kind, KExt):
        if v == INF:
            return SVal(kind, [zbool(True), zreal(0)])
        if isinstance(v, (int, float)):
            return SVal(kind, [zbool(False), zreal(v)])
    if isinstance(kind, KTuple) and isinstance(v, (tuple, TupleVal)):
        items = v.items if isinstance(v, TupleVal) else v
        terms = []
        for it, k in zip(items, kind.items):
            terms += list(lift(it, k).t)
        return SVal(kind, terms)
    if isinstance(kind, KVec) and isinstance(v, (tuple, list, TupleVal)):
        items = v.items if isinstance(v, TupleVal) else v
        return SVal(kind, [lift(x, KReal).z for x in items])
    raise CheckerError('cannot coerce constant %r to %r' % (v, kind))


_atom = z3.Function('atom', S, I)
_name_str = z3.Function('name_str', I, S)
_name_atoms = {}


def name_atom(s):
    """Distinct positive atoms for string constants used as Names."""
    if s not in _name_atoms:
        _name_atoms[s] = len(_name_atoms) + 1
    # constant atoms live in 1..999; symbolic names are only constrained > 0,
    # so they may coincide with constants (as real strings may).
    return zint(_name_atoms[s])


def default_term(sort):
    if sort == I:
        return zint(0)
    if sort == R:
        return zreal(0)
    if sort == B:
        return zbool(False)
    if sort == S:
        return z3.StringVal('')
    if isinstance(sort, z3.BitVecSortRef):
        return z3.BitVecVal(0, sort.size())
    if isinstance(sort, z3.ArraySortRef):
        return z3.K(sort.domain(), default_term(sort.range()))
    raise CheckerError('no default for sort %s' % sort)


def coerce(v, kind):
    """Convert SVal v to `kind` where Python would treat them alike."""
    if not isinstance(v, SVal):
        return coerce_const(v, kind)
    k = v.kind
    if k == kind:
        return v
    if kind == KReal and k == KInt:
        return SR(z3.ToReal(v.z))
    if kind == KInt and k == KBool:
        return SI(z3.If(v.z, 1, 0))
    if kind == KReal and k == KBool:
        return SR(z3.If(v.z, zreal(1), zreal(0)))
    if isinstance(kind, KOpt):
        if isinstance(k, KOpt):
            if k.inner == kind.inner:
                return SVal(kind, v.t)
            inner = coerce(SVal(k.inner, v.t[1:]), kind.inner)
            return SVal(kind, [v.t[0]] + list(inner.t))
        inner = coerce(v, kind.inner)
        return SVal(kind, [zbool(False)] + list(inner.t))
    if isinstance(kind, KExt):
        if k == KReal:
            return SVal(kind, [zbool(False), v.z])
        if k == KInt:
            return SVal(kind, [zbool(False), z3.ToReal(v.z)])
    if isinstance(kind, KRef) and isinstance(k, KRef):
        return SVal(kind, v.t)       # up/down cast; class tag carries the truth
    if isinstance(kind, KTuple) and isinstance(k, KTuple) and len(kind.items) == len(k.items):
        terms = []
        pos = 0
        for ik, ok in zip(k.items, kind.items):
            sub = SVal(ik, v.t[pos:pos + ik.nleaves])
            pos += ik.nleaves
            terms += list(coerce(sub, ok).t)
        return SVal(kind, terms)
    if kind == KName and k == KStr:
        # atom of a string: injective (name_str is its inverse), positive
        a = _atom(v.z)
        add_axiom(z3.And(_name_str(a) == v.z, a > 0))
        return SVal(KName, [a])
    if k == KAny and kind == KReal:
        # a number stored in an opaque payload: decoded by the uninterpreted tok_real
        return SVal(KReal, [z3.Function('tok_real', I, R)(v.t[0])])
    raise CheckerError('cannot coerce %r to %r' % (k, kind))


def tuple_items(v):
    """Items of a tuple-like value as a Python list of values."""
    if isinstance(v, TupleVal):
        return list(v.items)
    if isinstance(v, (tuple, list)):
        return list(v)
    if isinstance(v, SVal) and isinstance(v.kind, KTuple):
        out = []
        pos = 0
        for k in v.kind.items:
            out.append(SVal(k, v.t[pos:pos + k.nleaves]))
            pos += k.nleaves
        return out
    if isinstance(v, SVal) and isinstance(v.kind, KVec):
        return [SR(t) for t in v.t]
    raise CheckerError('not a tuple: %r' % (v,))


def kind_of(v):
    if isinstance(v, SVal):
        return v.kind
    if isinstance(v, bool):
        return KBool
    if isinstance(v, int):
        return KInt
    if isinstance(v, float):
        return KExtReal if v == INF else KReal
    if isinstance(v, str):
        return KStr
    if isinstance(v, TupleVal):
        return KTuple([kind_of(x) for x in v.items])
    return None


def pack_tuple(items):
    """Turn a TupleVal of liftable items into an SVal of KTuple."""
    kinds = []
    terms = []
    for it in items:
        sv = it if isinstance(it, SVal) else (pack_tuple(it.items) if isinstance(it, TupleVal) else lift(it))
        kinds.append(sv.kind)
        terms += list(sv.t)
    return SVal(KTuple(kinds), terms)


# ---------------------------------------------------------------- truthiness

def truthy(v):
    """z3 Bool (or Python bool) for Python truthiness of v."""
    if not isinstance(v, SVal):
        if isinstance(v, TupleVal):
            return len(v.items) > 0
        if isinstance(v, LocalDict):
            return len(v.d) > 0
        if isinstance(v, (FuncVal, ClassVal, ModuleVal)):
            return True
        return bool(v)
    k = v.kind
    if k == KBool:
        return v.z
    if k == KInt:
        return v.z != 0
    if k == KBits:
        return v.z != z3.BitVecVal(0, 64)
    if k == KReal:
        return v.z != 0
    if k == KStr:
        return z3.Length(v.z) > 0
    if k == KName or isinstance(k, (KRef, KEnum)):
        return v.z != 0
    if isinstance(k, KOpt):
        inner = truthy(SVal(k.inner, v.t[1:]))
        return z3.And(z3.Not(v.t[0]), inner)
    if isinstance(k, KExt):
        return z3.Or(v.t[0], v.t[1] != 0)
    if isinstance(k, KList):
        return v.t[0] > 0
    if isinstance(k, (KDict, KSet)):
        return nonempty(v.t[0])
    if isinstance(k, KTuple):
        return len(k.items) > 0
    if k == KAny:
        # an opaque payload: falsy exactly when it is the empty value (None, {}, '', 0): tok_empty (uninterpreted; a
        # contract module that needs it declares the same symbol with ufunc('tok_empty', ['Any'], 'Bool'))
        return z3.Not(z3.Function('tok_empty', I, z3.BoolSort())(v.t[0]))
    raise CheckerError('truthiness of %r' % k)


_axioms_hook = []   # engine installs a callback to record axioms


def add_axiom(ax):
    if _axioms_hook:
        _axioms_hook[-1](ax)


_wit_funcs = {}


def nonempty(domarr):
    """nonempty(A) := A[wit(A)] with axiom  forall k. A[k] => A[wit(A)]."""
    sort = domarr.sort()
    key = str(sort)
    if key not in _wit_funcs:
        _wit_funcs[key] = z3.Function('wit_' + str(len(_wit_funcs)), sort, sort.domain())
    w = _wit_funcs[key]
    k = z3.Const(fresh_name('k'), sort.domain())
    add_axiom(z3.ForAll([k], z3.Implies(z3.Select(domarr, k), z3.Select(domarr, w(domarr))),
                        patterns=[z3.Select(domarr, k)]))
    return z3.Select(domarr, w(domarr))


def znot(b):
    if isinstance(b, bool):
        return not b
    return z3.Not(b)


def zand(*bs):
    out = []
    for b in bs:
        if isinstance(b, bool):
            if not b:
                return False
            continue
        out.append(b)
    if not out:
        return True
    return z3.And(*out) if len(out) > 1 else out[0]


def zor(*bs):
    out = []
    for b in bs:
        if isinstance(b, bool):
            if b:
                return True
            continue
        out.append(b)
    if not out:
        return False
    return z3.Or(*out) if len(out) > 1 else out[0]


def zimplies(a, b):
    return zor(znot(a), b)


def asz(b):
    return zbool(b) if isinstance(b, bool) else b


def is_none(v):
    """z3 Bool / Python bool: v is None."""
    if v is None:
        return True
    if not isinstance(v, SVal):
        return False
    k = v.kind
    if isinstance(k, KOpt):
        return v.t[0]
    if k == KName or isinstance(k, KRef):
        return v.z == 0
    return False


# ---------------------------------------------------------------- equality

def _num_pair(a, b):
    """Coerce two numeric SVals/consts to a common kind; returns (za, zb, kind)."""
    ka, kb = kind_of(a), kind_of(b)
    if ka == KBool:
        a = coerce(lift(a), KInt)
        ka = KInt
    if kb == KBool:
        b = coerce(lift(b), KInt)
        kb = KInt
    if ka == KInt and kb == KInt:
        return lift(a).z, lift(b).z, KInt
    if ka in (KInt, KReal) and kb in (KInt, KReal):
        return coerce(lift(a), KReal).z, coerce(lift(b), KReal).z, KReal
    return None


def equal(a, b):
    """z3 Bool / Python bool for Python `a == b` (structural for values, identity for refs)."""
    if not isinstance(a, SVal) and not isinstance(b, SVal):
        if isinstance(a, TupleVal) and isinstance(b, TupleVal):
            if len(a.items) != len(b.items):
                return False
            return zand(*[equal(x, y) for x, y in zip(a.items, b.items)])
        if isinstance(a, TupleVal) or isinstance(b, TupleVal):
            return False
        return a == b
    if a is None or b is None:
        other = b if a is None else a
        return is_none(other)
    ka, kb = kind_of(a), kind_of(b)
    if ka is None or kb is None:
        return False
    # Optionals
    if isinstance(ka, KOpt) or isinstance(kb, KOpt):
        if isinstance(ka, KOpt) and isinstance(kb, KOpt):
            ia, ib = SVal(ka.inner, a.t[1:]), SVal(kb.inner, b.t[1:])
            return zor(zand(a.t[0], b.t[0]), zand(znot(a.t[0]), znot(b.t[0]), equal(ia, ib)))
        if isinstance(ka, KOpt):
            return zand(znot(a.t[0]), equal(SVal(ka.inner, a.t[1:]), b))
        return zand(znot(b.t[0]), equal(a, SVal(kb.inner, b.t[1:])))
    if isinstance(ka, KExt) or isinstance(kb, KExt):
        a2, b2 = coerce(lift(a), KExtReal), coerce(lift(b), KExtReal)
        return zor(zand(a2.t[0], b2.t[0]), zand(znot(a2.t[0]), znot(b2.t[0]), a2.t[1] == b2.t[1]))
    if ka == KBits or kb == KBits:
        za = a.z if isinstance(a, SVal) else z3.BitVecVal(a, 64)
        zb = b.z if isinstance(b, SVal) else z3.BitVecVal(b, 64)
        return za == zb
    if getattr(ka, 'name', None) == 'Any' and getattr(kb, 'name', None) == 'Any':
        return a.z == b.z            # opaque tokens: equal values have equal tokens (uninterpreted, so distinctness is not known)
    if ka == KBool and kb == KBool:
        # Bool == Bool as an equivalence (not through 0/1): keeps quantified operands out of ite terms
        za = a.z if isinstance(a, SVal) else zbool(a)
        zb = b.z if isinstance(b, SVal) else zbool(b)
        return za == zb
    np_ = _num_pair(a, b)
    if np_ is not None:
        return np_[0] == np_[1]
    if ka == KStr and kb == KStr:
        return lift(a).z == lift(b).z
    if isinstance(a, SVal) and isinstance(b, SVal) and {ka, kb} == {KName, KInt}:
        return a.z == b.z           # a name compared with a quantified Int standing for any name value
    if ka == KName or kb == KName:
        a2 = lift(a, KName) if not isinstance(a, SVal) else a
        b2 = lift(b, KName) if not isinstance(b, SVal) else b
        if a2.kind != KName or b2.kind != KName:
            return False
        return a2.z == b2.z
    if isinstance(ka, KRef) and isinstance(kb, KRef):
        return a.z == b.z
    if isinstance(ka, KEnum) and isinstance(kb, KEnum):
        return a.z == b.z
    if isinstance(ka, (KTuple, KVec)) or isinstance(kb, (KTuple, KVec)):
        ia, ib = tuple_items(a), tuple_items(b)
        if len(ia) != len(ib):
            return False
        return zand(*[equal(x, y) for x, y in zip(ia, ib)])
    if isinstance(ka, (KSet, KDict, KCounter, KList)) and ka == kb:
        if isinstance(ka, KList):
            return zand(*[x == y for x, y in zip(a.t, b.t)])
        if isinstance(ka, KSet):
            return a.t[0] == b.t[0]
        if isinstance(ka, KCounter):
            return a.t[0] == b.t[0]
        # representation equality (stronger than Python ==): used by specs for "unchanged"
        return zand(*[x == y for x, y in zip(a.t, b.t)])
    if ka != kb:
        # different primitive kinds never equal in Python (str vs int ...)
        return False
    raise CheckerError('equality on %r / %r' % (ka, kb))


STR_LE = z3.Function('str_le', z3.StringSort(), z3.StringSort(), z3.BoolSort())


def compare(op, a, b):
    """op in '<','<=','>','>=' on numbers / extended reals / strings."""
    ka, kb = kind_of(a), kind_of(b)
    if not isinstance(a, SVal) and not isinstance(b, SVal) and not isinstance(a, TupleVal):
        return {'<': a < b, '<=': a <= b, '>': a > b, '>=': a >= b}[op]
    if isinstance(ka, KExt) or isinstance(kb, KExt):
        a2, b2 = coerce(lift(a), KExtReal), coerce(lift(b), KExtReal)
        ai, av, bi, bv = a2.t[0], a2.t[1], b2.t[0], b2.t[1]
        if op == '<':
            return zand(znot(ai), zor(bi, av < bv))
        if op == '<=':
            return zor(bi, zand(znot(ai), av <= bv))
        if op == '>':
            return compare('<', b, a)
        if op == '>=':
            return compare('<=', b, a)
    np_ = _num_pair(a, b)
    if np_ is not None:
        za, zb, _ = np_
        return {'<': za < zb, '<=': za <= zb, '>': za > zb, '>=': za >= zb}[op]
    if ka == KName and kb == KName:
        # names are atoms: their (string) order is some total order on atoms
        za, zb = a.z, b.z
        return {'<': za < zb, '<=': za <= zb, '>': za > zb, '>=': za >= zb}[op]
    if ka == KStr and kb == KStr:
        # the lexicographic order of strings is kept abstract: an uninterpreted relation (no law is given to the
        # solver, so only what follows from the very same comparisons is provable - weaker than the real order, sound)
        za, zb = lift(a).z, lift(b).z
        if op == '<':
            return z3.Not(STR_LE(zb, za))
        if op == '<=':
            return STR_LE(za, zb)
        if op == '>':
            return z3.Not(STR_LE(za, zb))
        if op == '>=':
            return STR_LE(zb, za)
    if isinstance(ka, (KTuple,)) or isinstance(a, TupleVal):
        # lexicographic
        ia, ib = tuple_items(a), tuple_items(b)
        if len(ia) != len(ib):
            raise CheckerError('tuple compare of different length')
        strict = op in ('<', '>')
        base = '<' if op in ('<', '<=') else '>'
        res = (not strict)
        for x, y in reversed(list(zip(ia, ib))):
            res = zor(compare(base, x, y), zand(equal(x, y), res))
        return res
    raise CheckerError('compare %s on %r / %r' % (op, ka, kb))


# ---------------------------------------------------------------- arithmetic

def arith(op, a, b):
    """Binary arithmetic; returns value (const if both const)."""
    if not isinstance(a, SVal) and not isinstance(b, SVal) and not isinstance(a, TupleVal) and not isinstance(b, TupleVal):
        try:
            if op == '+':
                return a + b
            if op == '-':
                return a - b
            if op == '*':
                return a * b
            if op == '/':
                return a / b
            if op == '//':
                return a // b
            if op == '%':
                return a % b
            if op == '**':
                return a ** b
            if op == '|':
                return a | b
            if op == '&':
                return a & b
        except TypeError:
            raise CheckerError('arith %s on %r %r' % (op, a, b))
    ka, kb = kind_of(a), kind_of(b)
    if isinstance(a, TupleVal) and isinstance(b, TupleVal) and op == '+':
        return TupleVal(a.items + b.items)
    if isinstance(ka, KVec) or isinstance(kb, KVec):
        ia = tuple_items(a) if isinstance(ka, (KVec,)) or isinstance(a, TupleVal) else [a] * 3
        ib = tuple_items(b) if isinstance(kb, (KVec,)) or isinstance(b, TupleVal) else [b] * 3
        return SVal(KVec3, [coerce(lift(arith(op, x, y)), KReal).z for x, y in zip(ia, ib)])
    if ka == KBits or kb == KBits:
        za = a.z if isinstance(a, SVal) else z3.BitVecVal(a, 64)
        zb = b.z if isinstance(b, SVal) else z3.BitVecVal(b, 64)
        if op == '|':
            return SVal(KBits, [za | zb])
        if op == '&':
            return SVal(KBits, [za & zb])
        if op == '^':
            return SVal(KBits, [za ^ zb])
        raise CheckerError('bits arith %s' % op)
    if ka == KStr and kb == KStr and op == '+':
        return SVal(KStr, [str_concat([lift(a).z, lift(b).z])])
    if isinstance(ka, KExt) or isinstance(kb, KExt):
        a2, b2 = coerce(lift(a), KExtReal), coerce(lift(b), KExtReal)
        if op == '+':
            return SVal(KExtReal, [zor(a2.t[0], b2.t[0]), a2.t[1] + b2.t[1]])
        if op == '-':
            # inf - finite = inf ; finite - inf / inf - inf unsupported (NaN/-inf)
            return SVal(KExtReal, [a2.t[0], a2.t[1] - b2.t[1]]), ('noninf', b2.t[0])
        raise CheckerError('ext arith %s' % op)
    np_ = _num_pair(a, b)
    if np_ is None:
        raise CheckerError('arith %s on %r / %r' % (op, ka, kb))
    za, zb, k = np_
    if op == '+':
        return SVal(k, [za + zb])
    if op == '-':
        return SVal(k, [za - zb])
    if op == '*':
        return SVal(k, [za * zb])
    if op == '/':
        za, zb = (z3.ToReal(za), z3.ToReal(zb)) if k == KInt else (za, zb)
        return SR(real_div(za, zb))
    if op == '//':
        if k == KInt:
            return SI(pydiv(za, zb))
        raise CheckerError('real floor-div')
    if op == '%':
        if k == KInt:
            return SI(pymod(za, zb))
        raise CheckerError('real mod')
    if op in ('|', '&') and k == KInt:
        f = bit_or if op == '|' else bit_and
        return SI(f(za, zb))
    if op == '**' and k == KInt:
        return SI(int_pow(za, zb))
    raise CheckerError('arith %s on %r' % (op, k))


def str_concat(parts):
    """n-ary, flattened concatenation (canonical form helps congruence)."""
    flat = []
    for p in parts:
        if z3.is_app(p) and p.decl().kind() == z3.Z3_OP_SEQ_CONCAT:
            flat += list(p.children())
        elif z3.is_string_value(p) and p.as_string() == '':
            continue
        else:
            flat.append(p)
    merged = []
    for p in flat:
        if merged and z3.is_string_value(p) and z3.is_string_value(merged[-1]):
            merged[-1] = z3.StringVal(merged[-1].as_string() + p.as_string())
        else:
            merged.append(p)
    if not merged:
        return z3.StringVal('')
    if len(merged) == 1:
        return merged[0]
    return z3.Concat(*merged)


_rdiv = z3.Function('rdiv', R, R, R)
RDIV_FACTS = [False]


def real_div(za, zb):
    """Real division.  By a numeral: native (linear).  By a symbolic divisor: an uninterpreted function
    with the ground facts of division that keep the obligations linear (exact product, sign for a
    positive divisor); monotonicity in the numerator is a quantified axiom stated where it is needed."""
    if z3.is_rational_value(zb) or z3.is_int_value(zb):
        return za / zb
    q = _rdiv(za, zb)
    if RDIV_FACTS[0]:
        add_axiom(z3.Implies(zb > 0, z3.And((q < 0) == (za < 0), (q == 0) == (za == 0), (q > 0) == (za > 0))))
    return q


def pydiv(a, b):
    """Python floor division on ints (SMT div is Euclidean: 0 <= a mod b < |b|)."""
    return z3.If(b > 0, a / b, z3.If(a % b == 0, a / b, (a / b) - 1))


def pymod(a, b):
    return a - b * pydiv(a, b)


# trait masks: bit operations as uninterpreted functions with the lattice laws used
_bitor = z3.Function('bit_or', I, I, I)
_bitand = z3.Function('bit_and', I, I, I)
_intpow = z3.Function('int_pow', I, I, I)


def bit_or(a, b):
    return _bitor(a, b)


def bit_and(a, b):
    return _bitand(a, b)


def int_pow(a, b):
    return _intpow(a, b)


def neg(v):
    if not isinstance(v, SVal):
        return -v
    if v.kind in (KInt, KReal):
        return SVal(v.kind, [-v.z])
    if isinstance(v.kind, KVec):
        return SVal(KVec3, [-t for t in v.t])
    raise CheckerError('neg on %r' % v.kind)


# ---------------------------------------------------------------- containers

def list_len(v):
    return v.t[0]


def list_get(v, idx):
    k = v.kind.elem
    return SVal(k, [z3.Select(arr, idx) for arr in v.t[1:]])


def list_set(v, idx, item):
    item = coerce(lift(item), v.kind.elem) if not (isinstance(item, SVal) and item.kind == v.kind.elem) else item
    return SVal(v.kind, [v.t[0]] + [z3.Store(arr, idx, t) for arr, t in zip(v.t[1:], item.t)])


def list_append(v, item):
    item = coerce(lift(item) if not isinstance(item, (SVal, TupleVal)) or isinstance(item, SVal) else item, v.kind.elem)
    n = v.t[0]
    return SVal(v.kind, [n + 1] + [z3.Store(arr, n, t) for arr, t in zip(v.t[1:], item.t)])


def empty_of(kind):
    if isinstance(kind, KList):
        return SVal(kind, [zint(0)] + [default_term(s) for s in kind.sorts()[1:]])
    if isinstance(kind, (KDict, KSet, KCounter, KTotal)):
        return SVal(kind, [default_term(s) for s in kind.sorts()])
    raise CheckerError('empty_of %r' % kind)


def key_term(k, kind):
    """z3 key term for a dict/set of key kind `kind`."""
    if isinstance(k, SVal):
        if k.kind == kind or (isinstance(k.kind, KRef) and isinstance(kind, KRef)):
            return k.z
        if isinstance(k.kind, KOpt) and k.kind.inner == kind:
            return k.t[1]
        return coerce(k, kind).z
    if k is None and not (isinstance(kind, KRef) or kind == KName):
        return default_term(kind.sorts()[0])     # total in specs (guarded by `is not None` there)
    return coerce_const(k, kind).z


def dict_has(d, k):
    return z3.Select(d.t[0], key_term(k, d.kind.key))


def dict_get(d, k):
    kt = key_term(k, d.kind.key)
    return SVal(d.kind.val, [z3.Select(arr, kt) for arr in d.t[1:]])


def dict_set(d, k, v):
    kt = key_term(k, d.kind.key)
    v = coerce(v if isinstance(v, SVal) else (pack_or_lift(v, d.kind.val)), d.kind.val)
    return SVal(d.kind, [z3.Store(d.t[0], kt, True)] + [z3.Store(arr, kt, t) for arr, t in zip(d.t[1:], v.t)])


def pack_or_lift(v, kind):
    if isinstance(v, TupleVal):
        return coerce_const(v, kind)
    return lift(v, kind)


def dict_del(d, k):
    kt = key_term(k, d.kind.key)
    return SVal(d.kind, [z3.Store(d.t[0], kt, False)] + list(d.t[1:]))


def set_has(s, k):
    return z3.Select(s.t[0], key_term(k, s.kind.key))


def set_add(s, k):
    return SVal(s.kind, [z3.Store(s.t[0], key_term(k, s.kind.key), True)])


def set_discard(s, k):
    return SVal(s.kind, [z3.Store(s.t[0], key_term(k, s.kind.key), False)])


def counter_get(c, k):
    return SI(z3.Select(c.t[0], key_term(k, c.kind.key)))


def counter_add(c, k, n):
    kt = key_term(k, c.kind.key)
    return SVal(c.kind, [z3.Store(c.t[0], kt, z3.Select(c.t[0], kt) + n)])


def ite(cond, a, b):
    """Value-level if-then-else; kinds must be compatible."""
    if isinstance(cond, bool):
        return a if cond else b
    if a is None and b is None:
        return None
    ka, kb = kind_of(a), kind_of(b)
    if isinstance(a, TupleVal) and isinstance(b, TupleVal) and len(a.items) == len(b.items):
        return TupleVal([ite(cond, x, y) for x, y in zip(a.items, b.items)])
    if a is None or b is None:
        other = b if a is None else a
        ko = kind_of(other)
        if isinstance(ko, KOpt) or isinstance(ko, KRef) or ko == KName:
            target = ko
        else:
            target = KOpt(ko)
        a, b = coerce(lift(a, target) if not isinstance(a, SVal) else a, target), coerce(lift(b, target) if not isinstance(b, SVal) else b, target)
        return SVal(target, [z3.If(cond, x, y) for x, y in zip(a.t, b.t)])
    if ka != kb:
        target = join_kind(ka, kb)
        a, b = coerce(lift(a), target), coerce(lift(b), target)
    else:
        a, b = lift(a), lift(b)
    return SVal(a.kind, [z3.If(cond, x, y) for x, y in zip(a.t, b.t)])


def join_kind(ka, kb):
    if ka == kb:
        return ka
    nums = (KInt, KReal, KBool)
    if ka in nums and kb in nums:
        return KReal if KReal in (ka, kb) else KInt
    if isinstance(ka, KExt) or isinstance(kb, KExt):
        return KExtReal
    if isinstance(ka, KOpt) and not isinstance(kb, KOpt):
        return KOpt(join_kind(ka.inner, kb))
    if isinstance(kb, KOpt) and not isinstance(ka, KOpt):
        return KOpt(join_kind(ka, kb.inner))
    if isinstance(ka, KOpt) and isinstance(kb, KOpt):
        return KOpt(join_kind(ka.inner, kb.inner))
    if isinstance(ka, KRef) and isinstance(kb, KRef):
        return ka
    raise CheckerError('cannot join kinds %r / %r' % (ka, kb))
