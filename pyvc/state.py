"""Path state and heap access."""
import z3

from core import (SVal, LocalDict, KRef, KEnum, KName, KInt, KReal, KOpt, KList, KDict, KSet,
                  KCounter, KTuple, KExt, KVec, CheckerError, fresh_name, I, B)


class St:
    """One symbolic path: path condition, local env, heap overlay."""
    __slots__ = ('pc', 'env', 'heap', 'marks')

    def __init__(self, pc=(), env=None, heap=None, marks=None):
        self.pc = pc
        self.env = env if env is not None else {}
        self.heap = heap if heap is not None else {}
        self.marks = marks if marks is not None else {}

    def copy(self):
        env = {}
        for k, v in self.env.items():
            env[k] = v.copy() if isinstance(v, LocalDict) else v
        return St(self.pc, env, dict(self.heap), dict(self.marks))

    def assume(self, *conds):
        for c in conds:
            if c is True:
                continue
            if c is False:
                c = z3.BoolVal(False)
            self.pc = self.pc + (c,)
        return self


class Heap:
    """Initial heap arrays are shared constants created on demand."""

    def __init__(self):
        self.h0 = {}

    def initial(self, key, sort):
        if key not in self.h0:
            self.h0[key] = z3.Const('H_%s_%d' % (key[0].replace('.', '_'), key[1]), z3.ArraySort(I, sort))
        return self.h0[key]

    def get(self, heap, key, sort):
        if key in heap:
            return heap[key]
        return self.initial(key, sort)


ALIVE = ('$alive', 0)
cls_of = z3.Function('cls_of', I, I)
