"""Prelude: models of builtins and library calls (dependency contracts, DESIGN 3.6)."""
import ast
import z3

import ops
from ops import SB, SI, SR, truthy, equal, zand, zor, znot, asz, lift
from core import (SVal, TupleVal, LocalDict, FuncVal, ClassVal, ModuleVal, ExcVal, KRef, KEnum, KName,
                  KInt, KReal, KBool, KStr, KOpt, KList, KDict, KSet, KCounter, KTuple, KExt, KVec, KVec3,
                  KExtReal, CheckerError, fresh_name, fresh_val, I, B, R, S)
from engine_expr import is_exc
import frontend

INF = float('inf')


class PreludeMixin:
    BUILTINS = {'len', 'range', 'xrange', 'set', 'dict', 'list', 'tuple', 'sorted', 'min', 'max', 'int', 'str',
                'float', 'bool', 'isinstance', 'all', 'any', 'zip', 'enumerate', 'reversed', 'sum', 'abs', 'round',
                'getattr', 'pow', 'iter', 'next', 'type', 'repr', 'print', 'frozenset', 'hasattr'}
    SPEC_BUILTINS = {'vec_le', 'vec_ge', 'vec_lt', 'vec_eq', 'vec_zero', 'dom', 'is_none', 'to_real', 'length',
                     'keys_subset', 'str_to_int', 'alive', 'in_prefix', 'name_of', 'str_of', 'clock_now', 'eps', 'rdiv', 'is_int', 'ext', 'fs_kind', 'fs_target', 'path', 'fs_content', 'fs_ctime', 'yaml_of', 'zk_path', 'str_fn', 'any_tok', 'any_get', 'split_part', 'split_count', 'str_to_real', 'str_is_real', 'zk_exists', 'zk_owner', 'zk_content', 'dict_update_opt', 'dict_put', 'dict_del', 'set_put', 'set_del', 'counter_inc', 'is_digits', 'select', 'strlen', 'cls_is', 'distinct_list'}
    LIB_CONSTS = {'errno.ENOENT': 2, 'errno.EEXIST': 17, 'errno.EINVAL': 22, 'sys.maxsize': 9223372036854775807, 'sys.version_info': TupleVal([3, 12, 1]), 'os.name': 'posix', 'np.inf': INF, 'numpy.inf': INF, 'math.inf': INF}
    LIB_MODULES_ALIAS = {}
    LIB_MODULES = {'six.moves', 'os.path', 'six.moves.urllib', 'np.random'}

    # ------------------------------------------------------------------ sequences
    def as_sequence(self, st, fr, it):
        """-> (length term, get(st, i) -> value).  dict/set views: arbitrary-order snapshot."""
        k = ops.kind_of(it)
        if isinstance(k, KList):
            def get(s, i, it=it, k=k):
                v = ops.list_get(it, i)
                self.tf_assume(s, self.type_facts(v, k.elem, s))
                return v
            return it.t[0], get
        if isinstance(k, (KDict, KSet)):
            lst = self.snapshot_keys(st, it)
            return self.as_sequence(st, fr, lst)
        if isinstance(it, tuple) and it and it[0] in ('view', 'viewsnap'):
            if it[0] == 'view':
                _, mode, d = it
                keys = self.snapshot_keys(st, d)
            else:
                _, mode, d, keys = it
            n = keys.t[0]
            def get(s, i, keys=keys, d=d, mode=mode):
                kv = ops.list_get(keys, i)
                self.tf_assume(s, self.type_facts(kv, d.kind.key, s))
                if mode == 'keys':
                    return kv
                val = ops.dict_get(d, kv)
                self.tf_assume(s, self.type_facts(val, d.kind.val, s))
                return val if mode == 'values' else TupleVal([kv, val])
            return n, get
        if isinstance(it, tuple) and it and it[0] == 'range':
            if len(it) == 6:
                _, lo, hi, step, M, n = it

                def get_step(s, i):
                    s.assume(z3.Implies(i >= 0, z3.And(M(i + 1) == M(i) + step, M(i) >= i)))
                    return SI(lo + M(i))
                return n, get_step
            _, lo, hi = it
            n = z3.If(hi - lo > 0, hi - lo, 0)
            return n, (lambda s, i: SI(lo + i))
        if isinstance(it, tuple) and it and it[0] == 'zip':
            seqs = [self.as_sequence(st, fr, x) for x in it[1]]
            n = seqs[0][0]
            for m, _ in seqs[1:]:
                n = z3.If(m < n, m, n)
            return n, (lambda s, i: TupleVal([g(s, i) for _, g in seqs]))
        if isinstance(it, tuple) and it and it[0] == 'enumerate':
            n, g = self.as_sequence(st, fr, it[1])
            return n, (lambda s, i: TupleVal([SI(i), g(s, i)]))
        raise CheckerError('cannot iterate over %r in %s' % (k if k else it, fr.qual))

    def snapshot_keys(self, st, d):
        """List of the keys of a dict/set in arbitrary order: distinct, exactly the domain."""
        kk = d.kind.key
        lst = fresh_val(KList(kk), 'keys')
        n = lst.t[0]
        arr = lst.t[1]
        dom = d.t[0]
        ks = kk.sorts()[0]
        idx = z3.Function(fresh_name('idx'), ks, I)
        j = z3.Int(fresh_name('j'))
        k = z3.Const(fresh_name('k'), ks)
        st.assume(n >= 0)
        st.assume(z3.ForAll([j], z3.Implies(z3.And(j >= 0, j < n),
                                            z3.And(z3.Select(dom, z3.Select(arr, j)), idx(z3.Select(arr, j)) == j)),
                            patterns=[z3.Select(arr, j)]))
        st.assume(z3.ForAll([k], z3.Implies(z3.Select(dom, k),
                                            z3.And(idx(k) >= 0, idx(k) < n, z3.Select(arr, idx(k)) == k)),
                            patterns=[z3.Select(dom, k)]))
        self.snapshot_idx[lst.t[1].get_id()] = idx
        return lst

    def materialize(self, st, fr, it, elem_kind=None):
        """Turn an iterable into a KList value."""
        k = ops.kind_of(it)
        if isinstance(k, KList):
            return it
        if isinstance(k, (KDict, KSet)):
            return self.snapshot_keys(st, it)
        if isinstance(it, tuple) and it and it[0] == 'view':
            it = ('viewsnap', it[1], it[2], self.snapshot_keys(st, it[2]))
        if isinstance(it, TupleVal):
            if elem_kind is None:
                ek = None
                for x in it.items:
                    ek = ops.kind_of(x) if ek is None else ops.join_kind(ek, ops.kind_of(x))
                if ek is None:
                    raise CheckerError('empty literal list without declared kind')
                elem_kind = ek
            return self.coerce_to(st, it, KList(elem_kind))
        n, get = self.as_sequence(st, fr, it)
        pv = z3.Int(fresh_name('p'))
        b = self.push_binder([pv])
        try:
            probe = get(st, pv)
        finally:
            self.pop_binder(b)
        if isinstance(probe, TupleVal):
            probe = ops.pack_tuple(probe.items)
        ek = elem_kind or probe.kind
        lst = fresh_val(KList(ek), 'mat')
        j = z3.Int(fresh_name('j'))
        st.assume(lst.t[0] == n)
        b = self.push_binder([j])
        try:
            item = get(st, j)
        finally:
            self.close_binder(st, b, z3.And(j >= 0, j < n))
        if isinstance(item, TupleVal):
            item = ops.pack_tuple(item.items)
        item = ops.coerce(item, ek)
        for ra, t in zip(lst.t[1:], item.t):
            st.assume(z3.ForAll([j], z3.Implies(z3.And(j >= 0, j < n), z3.Select(ra, j) == t), patterns=[z3.Select(ra, j)]))
        if isinstance(it, tuple) and it and it[0] == 'viewsnap':
            # inverse direction for materialised dict views: the entry of key k sits at position idx(k)
            _, mode, d, keys = it
            idx = self.snapshot_idx[keys.t[1].get_id()]
            kk = z3.Const(fresh_name('k'), d.kind.key.sorts()[0])
            dom = d.t[0]
            if mode == 'values':
                val = ops.dict_get(d, SVal(d.kind.key, [kk]))
                st.assume(z3.ForAll([kk], z3.Implies(z3.Select(dom, kk),
                                                     z3.And(*[z3.Select(ra, idx(kk)) == t for ra, t in zip(lst.t[1:], val.t)])),
                                    patterns=[z3.Select(dom, kk)]))
        return lst

    # ------------------------------------------------------------------ comprehensions
    def ev_ListComp(self, e, st, fr):
        return self.comprehension(e, st, fr, 'list')

    def ev_GeneratorExp(self, e, st, fr):
        return self.comprehension(e, st, fr, 'list')

    def ev_SetComp(self, e, st, fr):
        return self.comprehension(e, st, fr, 'set')

    def ev_DictComp(self, e, st, fr):
        return self.comprehension(e, st, fr, 'dict')

    def comprehension(self, e, st, fr, mode):
        if len(e.generators) != 1:
            raise CheckerError('nested comprehension in %s' % fr.qual)
        g = e.generators[0]
        outs = []
        evs = []
        for s, it in self.ev(g.iter, st, fr):
            if isinstance(it, SVal) and isinstance(it.kind, KOpt):
                # iterating an optional: None is a TypeError, otherwise the value
                tt, ff = self.fork(s, z3.Not(it.t[0]))
                if ff is not None:
                    evs.append((ff, ExcVal('TypeError')))
                if tt is not None:
                    evs.append((tt, SVal(it.kind.inner, it.t[1:])))
            else:
                evs.append((s, it))
        for s, it in evs:
            if is_exc(it):
                outs.append((s, it))
                continue
            if isinstance(it, (TupleVal, LocalDict, range)):
                items = list(it.items) if isinstance(it, TupleVal) else (list(it.d) if isinstance(it, LocalDict) else list(it))
                outs += self.comp_concrete(e, g, s, fr, items, mode)
            else:
                outs.append((s, self.comp_symbolic(e, g, s, fr, it, mode)))
        return outs

    def comp_concrete(self, e, g, st, fr, items, mode):
        res = [(st, [])]
        for item in items:
            nxt = []
            for s, acc in res:
                if is_exc(acc):
                    nxt.append((s, acc))
                    continue
                saved = fr.bound
                fr.bound = dict(fr.bound)
                self.bind_pattern(fr.bound, g.target, item)
                try:
                    conds = [(s, True)]
                    for c in g.ifs:
                        tmp = []
                        for s2, ok in conds:
                            for s3, cv in self.ev(c, s2, fr):
                                if is_exc(cv):
                                    nxt.append((s3, cv))
                                    continue
                                tt, ff = self.fork(s3, truthy(cv))
                                if tt is not None:
                                    tmp.append((tt, ok))
                                if ff is not None:
                                    tmp.append((ff, False))
                        conds = tmp
                    for s2, ok in conds:
                        if not ok:
                            nxt.append((s2, acc))
                            continue
                        if mode == 'dict':
                            for s3, kv in self.seq([e.key, e.value], s2, fr):
                                nxt.append((s3, kv if is_exc(kv) else acc + [tuple(kv)]))
                        else:
                            for s3, v in self.ev(e.elt, s2, fr):
                                nxt.append((s3, v if is_exc(v) else acc + [v]))
                finally:
                    fr.bound = saved
            res = nxt
        outs = []
        for s, acc in res:
            if is_exc(acc):
                outs.append((s, acc))
            elif mode == 'dict':
                outs.append((s, LocalDict({(k if not isinstance(k, SVal) else k): v for k, v in acc})))
            else:
                outs.append((s, TupleVal(acc)))
        return outs

    def bind_pattern(self, env, target, item):
        if isinstance(target, ast.Name):
            env[target.id] = item
        elif isinstance(target, (ast.Tuple, ast.List)):
            items = ops.tuple_items(item)
            for t, x in zip(target.elts, items):
                self.bind_pattern(env, t, x)
        else:
            raise CheckerError('comprehension target')

    def comp_symbolic(self, e, g, st, fr, it, mode):
        """[f(x) for x in xs if c(x)] over a symbolic sequence.
        Without filter: result[j] == f(xs[j]).  With filter: an order-preserving
        sub-sequence characterised by ghost index maps."""
        if mode == 'set':
            return self.comp_symbolic_set(e, g, st, fr, it)
        if mode != 'list':
            raise CheckerError('symbolic %s comprehension' % mode)
        n, get = self.as_sequence(st, fr, it)
        j = z3.Int(fresh_name('cj'))
        saved = fr.bound
        fr.bound = dict(fr.bound)
        was_spec = fr.spec
        fr.spec = True          # element expressions must be total/pure
        b = self.push_binder([j])
        try:
            item = get(st, j)
            self.bind_pattern(fr.bound, g.target, item)
            elt = self.ev1(e.elt, st, fr)
            conds = [truthy(self.ev1(c, st, fr)) for c in g.ifs]
            self.flush_axioms(st)
        finally:
            fr.bound = saved
            fr.spec = was_spec
            self.close_binder(st, b, z3.And(j >= 0, j < n))
        if isinstance(elt, TupleVal):
            # a None component of a tuple element is an opaque token (kind Any)
            elt = ops.pack_tuple([self.any_token(st, x) if x is None else x for x in elt.items])
        elt = lift(elt)
        res = fresh_val(KList(elt.kind), 'comp')
        m = res.t[0]
        if not conds:
            st.assume(m == n)
            for ra, t in zip(res.t[1:], elt.t):
                pats = [z3.Select(ra, j)]
                if z3.is_select(t) and t.arg(1).eq(j):
                    pats.append(t)          # the source element triggers the equation too
                st.assume(z3.ForAll([j], z3.Implies(z3.And(j >= 0, j < n), z3.Select(ra, j) == t), patterns=pats))
            return res
        cond = asz(zand(*conds))
        src = z3.Function(fresh_name('src'), I, I)     # result index -> source index
        pos = z3.Function(fresh_name('pos'), I, I)     # source index -> result index
        p = z3.Int(fresh_name('p'))
        st.assume(m >= 0, m <= n)
        sub = lambda t, a: z3.substitute(t, (j, a))
        st.assume(z3.ForAll([p], z3.Implies(z3.And(p >= 0, p < m),
                                            z3.And(src(p) >= 0, src(p) < n, sub(cond, src(p)), pos(src(p)) == p,
                                                   *[z3.Select(ra, p) == sub(t, src(p)) for ra, t in zip(res.t[1:], elt.t)])),
                            patterns=[src(p)] + [z3.Select(ra, p) for ra in res.t[1:2]]))
        st.assume(z3.ForAll([j], z3.Implies(z3.And(j >= 0, j < n, cond),
                                            z3.And(pos(j) >= 0, pos(j) < m, src(pos(j)) == j)),
                            patterns=[pos(j)] + ([item.t[0]] if isinstance(item, SVal) and z3.is_select(item.t[0]) else [])))
        q = z3.Int(fresh_name('q'))
        st.assume(z3.ForAll([p, q], z3.Implies(z3.And(p >= 0, p < q, q < m), src(p) < src(q)), patterns=[z3.MultiPattern(src(p), src(q))]))
        return res

    def comp_symbolic_set(self, e, g, st, fr, it):
        """{f(x) for x in xs} over a symbolic sequence (no filter): S with  f(xs[j]) in S  for every j, and a
        witness index for every member of S."""
        if g.ifs:
            raise CheckerError('filtered symbolic set comprehension')
        n, get = self.as_sequence(st, fr, it)
        j = z3.Int(fresh_name('cj'))
        saved = fr.bound
        fr.bound = dict(fr.bound)
        was_spec = fr.spec
        fr.spec = True
        b = self.push_binder([j])
        try:
            item = get(st, j)
            self.bind_pattern(fr.bound, g.target, item)
            elt = lift(self.ev1(e.elt, st, fr))
            self.flush_axioms(st)
        finally:
            fr.bound = saved
            fr.spec = was_spec
            self.close_binder(st, b, z3.And(j >= 0, j < n))
        from core import KSet
        res = fresh_val(KSet(elt.kind), 'setcomp')
        dom = res.t[0]
        st.assume(z3.ForAll([j], z3.Implies(z3.And(j >= 0, j < n), z3.Select(dom, elt.z)),
                            patterns=[elt.z] if z3.is_app(elt.z) and elt.z.num_args() > 0 else [z3.Select(dom, elt.z)]))
        wit = z3.Function(fresh_name('wit'), elt.z.sort(), I)
        x = z3.Const(fresh_name('sx'), elt.z.sort())
        st.assume(z3.ForAll([x], z3.Implies(z3.Select(dom, x),
                                            z3.And(wit(x) >= 0, wit(x) < n, z3.substitute(elt.z, (j, wit(x))) == x)),
                            patterns=[z3.Select(dom, x)]))
        return res

    def call_on_comprehension(self, e, st, fr):
        name = e.func.id
        if name in st.env or name in fr.bound:
            return None
        comp = e.args[0]
        if name in ('all', 'any') and len(comp.generators) == 1:
            g = comp.generators[0]
            outs = []
            for s, it in self.ev(g.iter, st, fr):
                if is_exc(it):
                    outs.append((s, it))
                    continue
                if isinstance(it, (TupleVal,)) or (isinstance(it, tuple) and it and it[0] == 'zip' and all(
                        isinstance(ops.kind_of(x), KVec) or isinstance(x, TupleVal) for x in it[1])):
                    if isinstance(it, TupleVal):
                        items = list(it.items)
                    else:
                        cols = [ops.tuple_items(x) for x in it[1]]
                        items = [TupleVal(list(r)) for r in zip(*cols)]
                    conds = []
                    saved = fr.bound
                    was = fr.spec
                    fr.spec = True
                    try:
                        for item in items:
                            fr.bound = dict(saved)
                            self.bind_pattern(fr.bound, g.target, item)
                            c = truthy(self.ev1(comp.elt, s, fr))
                            for f in g.ifs:
                                fc = truthy(self.ev1(f, s, fr))
                                c = zor(znot(fc), c) if name == 'all' else zand(fc, c)
                            conds.append(c)
                    finally:
                        fr.bound = saved
                        fr.spec = was
                    r = zand(*conds) if name == 'all' else zor(*conds)
                    outs.append((s, r if isinstance(r, bool) else SB(r)))
                    continue
                # symbolic sequence: quantifier
                n, get = self.as_sequence(s, fr, it)
                j = z3.Int(fresh_name('aj'))
                saved = fr.bound
                was = fr.spec
                fr.spec = True
                fr.bound = dict(fr.bound)
                b = self.push_binder([j])
                try:
                    s_tmp = s
                    item = get(s_tmp, j)
                    self.bind_pattern(fr.bound, g.target, item)
                    c = asz(truthy(self.ev1(comp.elt, s, fr)))
                    fs = [asz(truthy(self.ev1(f, s, fr))) for f in g.ifs]
                    self.flush_axioms(s)
                finally:
                    fr.bound = saved
                    fr.spec = was
                    self.close_binder(s, b, z3.And(j >= 0, j < n))
                rng = z3.And(j >= 0, j < n, *fs)
                if name == 'all':
                    outs.append((s, SB(z3.ForAll([j], z3.Implies(rng, c)))))
                else:
                    outs.append((s, SB(z3.Exists([j], z3.And(rng, c)))))
            return outs
        return None

    # ------------------------------------------------------------------ container methods (receiver is an lvalue)
    MUTATORS = {'setdefault', 'append', 'extend', 'add', 'discard', 'remove', 'pop', 'update', 'subtract', 'clear', 'insert',
                'setdefault', 'sort'}

    def call_container_method(self, e, st, fr, fv):
        recv = fv.selfv
        meth = fv.qual.split('.', 1)[1]
        outs = []
        for s2, vals in self.seq(list(e.args) + [k.value for k in e.keywords], st, fr):
            if is_exc(vals):
                outs.append((s2, vals))
                continue
            args = vals[:len(e.args)]
            kwargs = dict(zip([k.arg for k in e.keywords], vals[len(e.args):]))
            for s3, res, newrecv in self.container_method(s2, fr, recv, meth, args, kwargs):
                if newrecv is not None and not is_exc(res):
                    for s4, oc in self.assign(e.func.value, newrecv, s3, fr):
                        outs.append((s4, res if oc[0] == 'next' else oc[1]))
                else:
                    outs.append((s3, res))
        return outs

    def container_method(self, st, fr, recv, meth, args, kwargs):
        """-> list of (st, result, new receiver value or None)."""
        k = ops.kind_of(recv)
        if isinstance(recv, LocalDict):
            if meth == 'get':
                key = args[0]
                if isinstance(key, SVal):
                    raise CheckerError('symbolic .get on literal dict')
                return [(st, recv.d.get(key, args[1] if len(args) > 1 else None), None)]
            if meth in ('items', 'keys', 'values'):
                if meth == 'keys':
                    return [(st, TupleVal(list(recv.d.keys())), None)]
                if meth == 'values':
                    return [(st, TupleVal(list(recv.d.values())), None)]
                return [(st, TupleVal([TupleVal([a, b]) for a, b in recv.d.items()]), None)]
            if meth == 'update' and isinstance(args[0], LocalDict):
                recv.d.update(args[0].d)
                return [(st, None, None)]
            if meth == 'copy':
                return [(st, recv.copy(), None)]
        if isinstance(recv, TupleVal):
            if meth == 'index' and not isinstance(args[0], SVal):
                items = list(recv.items)
                if args[0] in items:
                    return [(st, items.index(args[0]), None)]
                return [(st, ExcVal('ValueError'), None)]
            if meth == 'append':
                return [(st, None, TupleVal(list(recv.items) + [args[0]]))]
        if isinstance(k, KList):
            if meth == 'append':
                return [(st, None, ops.list_append(recv, self.coerce_to(st, args[0], k.elem)))]
            if meth == 'extend':
                other = self.materialize(st, fr, args[0], k.elem)
                return [(st, None, self.list_concat(recv, other))]
            if meth == 'pop' and args and args[0] == 0:
                n = recv.t[0]
                tt, ff = self.fork(st, n > 0)
                outs = []
                if tt is not None:
                    first = ops.list_get(recv, z3.IntVal(0))
                    rest = self.slice(tt, fr, recv, 1, None, None)
                    outs.append((tt, first, rest))
                if ff is not None:
                    outs.append((ff, ExcVal('IndexError'), None))
                return outs
            if meth == 'copy':
                return [(st, recv, None)]
            if meth == 'sort' and not args:
                return [(st, None, self.b_sorted(st, fr, [recv], dict(kwargs)))]
        if isinstance(k, KDict):
            if meth == 'get':
                has = ops.dict_has(recv, args[0])
                dflt = args[1] if len(args) > 1 else None
                v = ops.dict_get(recv, args[0])
                if isinstance(dflt, (TupleVal, LocalDict)):
                    dflt = self.coerce_to(st, dflt, k.val)
                self.tf_assume(st, [z3.Implies(has, f) for f in self.type_facts(v, k.val, st)])
                return [(st, ops.ite(has, v, dflt), None)]
            if meth in ('values', 'keys', 'items', 'itervalues', 'iteritems', 'iterkeys', 'viewvalues'):
                mode = {'itervalues': 'values', 'iteritems': 'items', 'iterkeys': 'keys', 'viewvalues': 'values'}.get(meth, meth)
                return [(st, ('view', mode, recv), None)]
            if meth == 'update':
                other = args[0]
                if isinstance(other, LocalDict) and not other.d:
                    return [(st, None, recv)]
                ko = ops.kind_of(other)
                if isinstance(ko, KOpt) and isinstance(ko.inner, KDict):
                    # d.update(None) raises TypeError
                    tt, ff = self.fork(st, z3.Not(other.t[0]))
                    outs = []
                    if ff is not None:
                        outs.append((ff, ExcVal('TypeError'), None))
                    if tt is not None:
                        inner = SVal(ko.inner, other.t[1:])
                        outs.append((tt, None, self.dict_update(tt, recv, ops.coerce(inner, k) if ko.inner != k else inner)))
                    return outs
                if isinstance(ko, KDict):
                    return [(st, None, self.dict_update(st, recv, ops.coerce(other, k) if ko != k else other))]
            if meth == 'pop':
                has = ops.dict_has(recv, args[0])
                v = ops.dict_get(recv, args[0])
                if len(args) > 1:
                    return [(st, ops.ite(has, v, args[1]), ops.dict_del(recv, args[0]))]
                tt, ff = self.fork(st, has)
                outs = []
                if tt is not None:
                    outs.append((tt, v, ops.dict_del(recv, args[0])))
                if ff is not None:
                    outs.append((ff, ExcVal('KeyError'), None))
                return outs
            if meth == 'setdefault':
                has = ops.dict_has(recv, args[0])
                dflt = self.coerce_to(st, args[1] if len(args) > 1 else None, k.val)
                cur = ops.dict_get(recv, args[0])
                new = ops.dict_set(recv, args[0], dflt)
                self.fold_update(st, fr, recv, new, args[0], dflt)
                res = SVal(k, [z3.If(has, a_, b_) for a_, b_ in zip(recv.t, new.t)])
                return [(st, ops.ite(has, cur, dflt), res)]
            if meth == 'copy':
                return [(st, recv, None)]
            if meth == 'clear':
                e = ops.empty_of(k)
                self.fold_empty(st, e)
                return [(st, None, e)]
        if isinstance(k, KSet):
            if meth == 'clear':
                return [(st, None, ops.empty_of(k))]
            if meth == 'add':
                return [(st, None, ops.set_add(recv, args[0]))]
            if meth == 'discard':
                return [(st, None, ops.set_discard(recv, args[0]))]
            if meth == 'remove':
                has = ops.set_has(recv, args[0])
                tt, ff = self.fork(st, has)
                outs = []
                if tt is not None:
                    outs.append((tt, None, ops.set_discard(recv, args[0])))
                if ff is not None:
                    outs.append((ff, ExcVal('KeyError'), None))
                return outs
            if meth == 'pop':
                # arbitrary member
                ne = ops.nonempty(recv.t[0])
                tt, ff = self.fork(st, ne)
                outs = []
                if tt is not None:
                    x = fresh_val(k.key, 'popped')
                    tt.assume(z3.Select(recv.t[0], x.z), *self.type_facts(x, k.key, tt))
                    outs.append((tt, x, ops.set_discard(recv, x)))
                if ff is not None:
                    outs.append((ff, ExcVal('KeyError'), None))
                return outs
            if meth == 'update':
                other = self.coerce_to(st, args[0], k) if not isinstance(ops.kind_of(args[0]), KSet) else args[0]
                return [(st, None, self.set_binop(st, '|', recv, other))]
            if meth == 'copy':
                return [(st, recv, None)]
        if isinstance(k, KCounter):
            if meth == 'clear':
                return [(st, None, ops.empty_of(k))]
            if meth in ('update', 'subtract'):
                sign = 1 if meth == 'update' else -1
                other = args[0]
                ko = ops.kind_of(other)
                if isinstance(other, TupleVal):
                    cur = recv
                    for item in other.items:
                        cur = ops.counter_add(cur, item, sign)
                    return [(st, None, cur)]
                if isinstance(ko, KCounter):
                    res = fresh_val(k, 'cnt')
                    kk = z3.Const(fresh_name('k'), k.sorts()[0].domain())
                    st.assume(z3.ForAll([kk], z3.Select(res.t[0], kk) == z3.Select(recv.t[0], kk) + sign * z3.Select(other.t[0], kk),
                                        patterns=[z3.Select(res.t[0], kk)]))
                    return [(st, None, res)]
        if getattr(k, 'name', None) in ('Any', 'Str') and meth == 'encode' and not args:
            # str.encode(): the bytes are a function of the text (token)
            from core import KAny
            tok = self.any_token(st, recv)
            f = self.recfuncs.setdefault(('$any_encode',), z3.Function('any_encode', I, I))
            return [(st, SVal(KAny, [f(tok.z)]), None)]
        if getattr(k, 'name', None) == 'Any' and meth == 'decode' and not args:
            # bytes.decode(): the text is a function of the bytes (token to token)
            f = self.recfuncs.setdefault(('$any_decode',), z3.Function('any_decode', I, I))
            from core import KAny
            return [(st, SVal(KAny, [f(recv.z)]), None)]
        if k == KName and meth in ('index', 'find'):
            f = self.recfuncs.setdefault('$name_index', z3.Function('name_index', I, I, I))
            return [(st, SI(f(recv.z, lift(args[0], KName).z)), None)]
        if k == KStr or isinstance(recv, str):
            return [(s, r, None) for s, r in self.str_method(st, fr, recv, meth, args, kwargs)]
        if isinstance(k, KVec) and meth == 'copy':
            return [(st, recv, None)]
        if isinstance(k, KRef):
            pass
        raise CheckerError('method %s on %r in %s' % (meth, k if k else recv, fr.qual))

    def dict_update(self, st, d, other):
        k = d.kind
        # the result is a *function* of the two operands (same operands => same term), defined pointwise
        argz = list(d.t) + list(other.t)
        key = ('$dict_update', repr(k), tuple(str(a.sort()) for a in argz))
        if key not in self.recfuncs:
            self.recfuncs[key] = [z3.Function('dict_upd%d_%s' % (i, ''.join(ch for ch in repr(k) if ch.isalnum())),
                                              *([a.sort() for a in argz] + [s_])) for i, s_ in enumerate(k.sorts())]
        res = SVal(k, [F(*argz) for F in self.recfuncs[key]])
        kk = z3.Const(fresh_name('k'), k.sorts()[0].domain())
        inb = z3.Select(other.t[0], kk)
        st.assume(z3.ForAll([kk], z3.Select(res.t[0], kk) == z3.Or(z3.Select(d.t[0], kk), inb), patterns=[z3.Select(res.t[0], kk)]))
        for ra, da, oa in zip(res.t[1:], d.t[1:], other.t[1:]):
            st.assume(z3.ForAll([kk], z3.Select(ra, kk) == z3.If(inb, z3.Select(oa, kk), z3.Select(da, kk)), patterns=[z3.Select(ra, kk)]))
        return res

    # ------------------------------------------------------------------ strings
    def str_method(self, st, fr, recv, meth, args, kwargs):
        if isinstance(recv, str) and all(not isinstance(a, SVal) for a in args):
            if meth == 'format':
                if any(isinstance(a, SVal) for a in args) or kwargs:
                    pass
                else:
                    return [(st, recv.format(*args))]
            elif meth == 'join' and isinstance(args[0], TupleVal) and all(isinstance(x, str) for x in args[0].items):
                return [(st, recv.join(args[0].items))]
            elif meth != 'join':
                return [(st, getattr(recv, meth)(*args))]
        if meth == 'format':
            return [(st, self.str_format(recv, args, kwargs))]
        z = lift(recv).z if not isinstance(recv, SVal) else recv.z
        if meth == 'endswith':
            return [(st, SB(z3.SuffixOf(lift(args[0], KStr).z, z)))]
        if meth == 'startswith':
            return [(st, SB(z3.PrefixOf(lift(args[0], KStr).z, z)))]
        if meth in ('upper', 'lower', 'strip'):
            f = self.str_fun(meth)
            return [(st, SVal(KStr, [f(z)]))]
        if meth == 'join' and isinstance(args[0], TupleVal):
            parts = []
            for i, x in enumerate(args[0].items):
                if i:
                    parts.append(z)
                parts.append(self.to_str(x))
            if not parts:
                return [(st, '')]
            return [(st, SVal(KStr, [ops.str_concat(parts)]))]
        if meth == 'isdigit':
            return [(st, SB(self.is_digits(z)))]
        if meth in ('split', 'rsplit') and args and isinstance(args[0], str) and (len(args) == 1 or isinstance(args[1], int)):
            # s.split(sep[, maxsplit]): a list of 1 .. maxsplit+1 parts; the parts are functions of (s, sep, maxsplit, i)
            # (spec: split_part / split_count); nothing else about them is assumed.  rsplit: the same shape, other
            # functions (the separator string is tagged)
            mx = args[1] if len(args) > 1 else -1
            if meth == 'rsplit':
                args = ['rsplit\x00' + args[0]] + list(args[1:])
            cnt = SPLIT_COUNT(z, z3.StringVal(args[0]), z3.IntVal(mx))
            st.assume(cnt >= 1)
            if mx >= 0:
                st.assume(cnt <= mx + 1)
            res = fresh_val(KList(KStr), 'split')
            j = z3.Int(fresh_name('j'))
            st.assume(res.t[0] == cnt)
            st.assume(z3.ForAll([j], z3.Select(res.t[1], j) == SPLIT_PART(z, z3.StringVal(args[0]), z3.IntVal(mx), j),
                                patterns=[z3.Select(res.t[1], j)]))
            return [(st, res)]
        if meth == 'find':
            return [(st, SI(z3.IndexOf(z, lift(args[0], KStr).z, 0)))]
        raise CheckerError('str method %s in %s' % (meth, fr.qual))

    _strfuns = {}

    def str_fun(self, name):
        if name not in self._strfuns:
            self._strfuns[name] = z3.Function('str_' + name, S, S)
        return self._strfuns[name]

    def is_digits(self, z):
        return z3.InRe(z, z3.Plus(z3.Range('0', '9')))

    def str_format(self, fmt, args, kwargs):
        if not isinstance(fmt, str):
            raise CheckerError('format on symbolic string')
        import string
        parts = []
        auto = 0
        for lit, field, spec, conv in string.Formatter().parse(fmt):
            if lit:
                parts.append(z3.StringVal(lit))
            if field is None:
                continue
            if spec:
                raise CheckerError('format spec %r' % spec)
            if field == '':
                v = args[auto]
                auto += 1
            elif field.isdigit():
                v = args[int(field)]
            else:
                v = kwargs[field]
            parts.append(self.to_str(v))
        if not parts:
            return ''
        return SVal(KStr, [ops.str_concat(parts)])

    # ------------------------------------------------------------------ builtins & library
    def call_builtin(self, st, fr, fv, args, kwargs):
        q = fv.qual
        if q.startswith('method.'):
            res = self.container_method(st, fr, fv.selfv, q.split('.', 1)[1], args, kwargs)
            out = []
            for s, r, newrecv in res:
                if newrecv is not None and not (isinstance(newrecv, SVal) and newrecv is fv.selfv):
                    if q.split('.', 1)[1] in self.MUTATORS:
                        raise CheckerError('mutating method %s on a non-lvalue receiver' % q)
                out.append((s, r))
            return out
        if q.startswith('libmeth.'):
            dep = self.reg.contracts['lib:' + q[8:]]
            return self.apply_lib_contract(st, fr, dep, [fv.selfv] + list(args), kwargs)
        if q.startswith('record.'):
            return self.record_method(st, fr, fv.selfv, q.split('.', 1)[1], args, kwargs)
        if q.startswith('spec.'):
            return [(st, self.spec_builtin(st, fr, q[5:], args))]
        if q.startswith('opaque.'):
            self.stats['deps_used'].add(q)
            r = self.make_path_f_term(st, fr, q, args, kwargs)
            if r is not None:
                return r
            return [(st, self.opaque_term(q, list(args) + [kwargs[k_] for k_ in sorted(kwargs)]))]
        if q.startswith('zfunc.'):
            f, rk = fv.py
            return [(st, SVal(rk, [f(*[lift(a).z for a in args])]))]
        if q.startswith('fold.'):
            return [(st, self.fold_apply(st, q[5:], args[0], list(args[1:])))]
        if q.startswith('ufunc.'):
            f, ks, rk = self.reg.ufuncs[q[6:]]
            zs = []
            for a, k in zip(args, ks):
                zs += list(self.coerce_to(st, a, k).t)
            return [(st, SVal(rk, [f(*zs)]))]
        name = q.split('.', 1)[1] if q.startswith('builtins.') else q
        if name.startswith('numpy.'):
            name = 'np.' + name[6:]
        h = getattr(self, 'b_' + name.replace('.', '_'), None)
        if h is None:
            dep = self.reg.contracts.get('lib:' + name)
            if dep is not None:
                return self.apply_lib_contract(st, fr, dep, args, kwargs)
            raise CheckerError('no model for %s (called in %s)' % (q, fr.qual))
        self.stats['deps_used'].add(name)
        r = h(st, fr, args, kwargs)
        if isinstance(r, list):
            return r
        return [(st, r)]

    def make_path_f_term(self, st, fr, q, args, kwargs):
        """zknamespace.path.<x> = make_path_f(ROOT) (functools.partial(join_zookeeper_path, ROOT)): when the contract module
        declares the child-path function cp, such a builder is read off the class body of the real source and evaluated
        as join_zookeeper_path(ROOT, *args)."""
        if 'cp' not in self.reg.ufuncs or kwargs:
            return None
        modname, _, rest = q[len('opaque.'):].rpartition('.')
        mname, _, cname = modname.rpartition('.')
        if not frontend.module_exists(mname):
            return None
        mod = frontend.module(mname)
        cnode = mod.defs.get(cname)
        if not isinstance(cnode, ast.ClassDef):
            return None
        for stn in cnode.body:
            if (isinstance(stn, ast.Assign) and len(stn.targets) == 1 and isinstance(stn.targets[0], ast.Name) and
                    stn.targets[0].id == rest and isinstance(stn.value, ast.Call) and
                    isinstance(stn.value.func, ast.Name) and stn.value.func.id == 'make_path_f' and
                    len(stn.value.args) == 1 and isinstance(stn.value.args[0], ast.Name)):
                root = self.module_global(mod, stn.value.args[0].id)
                return self.model_join_zookeeper_path(st, fr, [root] + list(args), {})
        return None

    def opaque_term(self, q, args):
        """A pure string builder (registered with opaque()): an uninterpreted function of its arguments."""
        zs = []
        for a in args:
            a = lift(a)
            if isinstance(a, SVal):
                zs += list(a.t)
        if not zs:
            return SVal(KStr, [z3.StringVal('opaque_' + q.replace('.', '_'))])
        key = ('$opaque', q, tuple(str(z_.sort()) for z_ in zs))
        if key not in self.recfuncs:
            self.recfuncs[key] = z3.Function('opaque_' + q.replace('.', '_') + '_%d' % len(zs),
                                             *([z_.sort() for z_ in zs] + [z3.StringSort()]))
        return SVal(KStr, [self.recfuncs[key](*zs)])

    def apply_lib_contract(self, st, fr, c, args, kwargs):
        params = c.types.get('$params', [])
        env = dict(zip(params, args))
        env.update(kwargs)
        for p, d in c.types.get('$defaults', {}).items():
            env.setdefault(p, d)
        fv = FuncVal('builtin', qual=c.qual)
        fv.module = None
        return self.apply_contract(st, fr, c, env, fv)

    def record_method(self, st, fr, recv, meth, args, kwargs):
        k = recv.kind
        sc = self.schema(k.cls)
        if meth == 'get':
            key = args[0]
            dflt = args[1] if len(args) > 1 else None
            if isinstance(key, str):
                if key not in sc.fields:
                    return [(st, dflt)]
                v = self.read_field(st, st.heap, recv.z, k.cls, key)
                if ('has_' + key) in sc.fields:
                    has = self.read_field(st, st.heap, recv.z, k.cls, 'has_' + key).z
                    if dflt is None:
                        dflt = self.none_of(v.kind)
                    elif isinstance(dflt, (TupleVal, LocalDict)):
                        dflt = self.coerce_to(st, dflt, v.kind)
                    return [(st, ops.ite(has, v, dflt))]
                return [(st, v)]
        if meth == 'update' and len(args) == 1 and isinstance(args[0], SVal) and args[0].kind == k:
            # d.update(e) on two JSON objects of the same record class: every key of e is laid over d (a key with a
            # has_<key> flag only when e holds it)
            other = args[0]
            for f in sc.fields:
                if f.startswith('has_'):
                    continue
                nv = self.read_field(st, st.heap, other.z, k.cls, f)
                if ('has_' + f) in sc.fields:
                    oh = self.read_field(st, st.heap, other.z, k.cls, 'has_' + f)
                    ov = self.read_field(st, st.heap, recv.z, k.cls, f)
                    mh = self.read_field(st, st.heap, recv.z, k.cls, 'has_' + f)
                    self.write_field(st, recv.z, k.cls, f, ops.ite(oh.z, nv, ov))
                    self.write_field(st, recv.z, k.cls, 'has_' + f, SB(z3.Or(oh.z, mh.z)))
                else:
                    self.write_field(st, recv.z, k.cls, f, nv)
            return [(st, None)]
        raise CheckerError('record method %s' % meth)

    def none_of(self, kind):
        if isinstance(kind, KRef) or kind == KName:
            return SVal(kind, [z3.IntVal(0)])
        return None

    def b_len(self, st, fr, args, kw):
        v = args[0]
        if isinstance(v, SVal) and isinstance(v.kind, KOpt) and isinstance(v.kind.inner, (KList, KDict, KSet)):
            if fr.spec:
                v = SVal(v.kind.inner, v.t[1:])         # specs are total: guarded by `is not None` where it matters
            else:
                v = self.unwrap_opt(st, fr, v)           # len(None): TypeError (obligation)
        if isinstance(v, TupleVal):
            return len(v.items)
        if isinstance(v, (str, tuple, list, dict)):
            return len(v)
        if isinstance(v, LocalDict):
            return len(v.d)
        k = ops.kind_of(v)
        if isinstance(k, KList):
            return SI(v.t[0])
        if k == KStr:
            return SI(z3.Length(v.z))
        if isinstance(k, (KTuple, KVec)):
            return len(ops.tuple_items(v))
        raise CheckerError('len of %r' % (k,))

    def b_range(self, st, fr, args, kw):
        if all(isinstance(a, int) for a in args):
            return TupleVal(list(range(*args)))
        if len(args) == 1:
            return ('range', z3.IntVal(0), lift(args[0], KInt).z)
        if len(args) == 2:
            return ('range', lift(args[0], KInt).z, lift(args[1], KInt).z)
        if len(args) == 3:
            # range(lo, hi, step) with a symbolic step: the k-th value is lo + M(k) with M(0) = 0, M(k+1) = M(k) + step
            # (multiplication kept out of the formulas); step == 0 raises ValueError, a negative step is not modelled
            lo, hi, step = (lift(a, KInt).z for a in args)
            tt, ff = self.fork(st, step > 0)
            outs = []
            if ff is not None:
                z0, nz = self.fork(ff, step == 0)
                if z0 is not None:
                    outs.append((z0, ExcVal('ValueError')))
                if nz is not None:
                    raise CheckerError('range with a possibly negative step in %s' % fr.qual)
            if tt is not None:
                M = z3.Function(fresh_name('rstep'), I, I)
                k = z3.Int(fresh_name('k'))
                n = z3.Int(fresh_name('rlen'))
                # the recurrence is instantiated where a value is taken (as_sequence), not quantified: a quantified
                # M(k+1) = M(k) + step with trigger M(k) is a matching loop
                tt.assume(M(0) == 0)
                tt.assume(n >= 0, lo + M(n) >= hi, z3.Or(n == 0, lo + M(n - 1) < hi), M(n) >= n)
                outs.append((tt, ('range', lo, hi, step, M, n)))
            return outs
        raise CheckerError('range arity')

    b_xrange = b_range
    b_six_moves_xrange = b_range
    b_six_moves_range = b_range

    def b_isinstance(self, st, fr, args, kw):
        v, cls = args
        names = []
        for c in (cls.items if isinstance(cls, TupleVal) else [cls]):
            if isinstance(c, TupleVal):
                names += [self.type_name(x) for x in c.items]
            else:
                names.append(self.type_name(c))
        k = ops.kind_of(v)
        if v is None:
            return False
        pyk = None
        if k in (KStr, KName) or isinstance(v, str):
            pyk = 'str'
        elif k == KBool or isinstance(v, bool):
            pyk = 'bool'
        elif k == KInt:
            pyk = 'int'
        elif k == KReal or isinstance(k, KExt):
            pyk = 'float'
        elif isinstance(k, KList) or isinstance(v, TupleVal):
            pyk = 'list'
        elif isinstance(k, KDict) or isinstance(v, LocalDict):
            pyk = 'dict'
        elif isinstance(k, KVec):
            pyk = 'ndarray'
        elif isinstance(k, KSet):
            pyk = 'set'
        if pyk is not None:
            if pyk == 'bool' and 'int' in names:
                return True
            return pyk in names
        if isinstance(k, KRef):
            ids = []
            for n in names:
                if n in self.reg.classes:
                    ids += [self.class_id(c) for c in self.subclasses(n)]
            if not ids:
                return False
            return SB(z3.And(v.z != 0, z3.Or(*[cls_of_(v.z) == i for i in ids])))
        if isinstance(k, KOpt):
            inner = self.b_isinstance(st, fr, [SVal(k.inner, v.t[1:]), cls], kw)
            return SB(z3.And(z3.Not(v.t[0]), asz(truthy(inner))))
        raise CheckerError('isinstance on %r' % (k,))

    def type_name(self, c):
        if isinstance(c, ClassVal):
            return c.name
        if isinstance(c, FuncVal):
            n = c.qual.split('.')[-1]
            return {'string_types': 'str', 'integer_types': 'int', 'text_type': 'str'}.get(n, n)
        raise CheckerError('isinstance class %r' % (c,))

    def b_six_string_types(self, st, fr, args, kw):
        raise CheckerError('six.string_types called')

    def b_bool(self, st, fr, args, kw):
        t = truthy(args[0])
        return t if isinstance(t, bool) else SB(t)

    def b_int(self, st, fr, args, kw):
        v = args[0]
        k = ops.kind_of(v)
        if not isinstance(v, SVal):
            try:
                return int(v)
            except (ValueError, TypeError):
                return [(st, ExcVal('ValueError'))]
        if k == KInt:
            return v
        if k == KBool:
            return ops.coerce(v, KInt)
        if k == KStr:
            # int(s): defined on optional sign + digits (whitespace handled by callers' strip)
            ok = self.is_digits(v.z)
            return self.partial(st, fr, ok, 'ValueError', lambda s: SI(z3.StrToInt(v.z)))
        if k == KReal:
            return SI(z3.ToInt(v.z))     # floor; equals trunc for non-negative
        raise CheckerError('int() of %r' % (k,))

    def b_round(self, st, fr, args, kw):
        """round(x) -> int: some integer within 1/2 of x (which one at a tie is left open)."""
        if len(args) != 1:
            raise CheckerError('round() with ndigits is not modelled')
        v = args[0]
        if not isinstance(v, SVal):
            return round(v)
        if ops.kind_of(v) == KInt:
            return v
        x = ops.coerce(v, KReal).z
        r = z3.Int(fresh_name('round'))
        st.assume(z3.ToReal(r) - x <= z3.RealVal('1/2'), x - z3.ToReal(r) <= z3.RealVal('1/2'))
        return SI(r)

    def b_str(self, st, fr, args, kw):
        v = args[0]
        if isinstance(v, str):
            return v
        if isinstance(v, SVal) and v.kind == KName:
            return v            # str() of a name-like value is the name
        return SVal(KStr, [self.to_str(v)])

    def b_float(self, st, fr, args, kw):
        v = args[0]
        if v == 'inf':
            return INF
        if not isinstance(v, SVal):
            return float(v)
        if v.kind == KInt:
            return ops.coerce(v, KReal)
        if v.kind == KReal:
            return v
        if v.kind == KStr:
            # float(<text>): ValueError unless the text is a number (uninterpreted predicate); its value is a function of
            # the text (spec: str_to_real)
            tt, ff = self.fork(st, STR_IS_REAL(v.z))
            outs = []
            if ff is not None:
                outs.append((ff, ExcVal('ValueError')))
            if tt is not None:
                outs.append((tt, SR(STR_TO_REAL(v.z))))
            return outs
        raise CheckerError('float() of %r' % (v.kind,))

    def b_min(self, st, fr, args, kw):
        return self.minmax(st, fr, args, kw, '<')

    def b_max(self, st, fr, args, kw):
        return self.minmax(st, fr, args, kw, '>')

    def minmax(self, st, fr, args, kw, op):
        if len(args) == 1:
            if isinstance(args[0], TupleVal):
                args = list(args[0].items)
            else:
                raise CheckerError('min/max over symbolic sequence: use a contract')
        if kw:
            raise CheckerError('min/max with key')
        args = [self.unwrap_opt(st, fr, a) for a in args]      # None among the operands would be a TypeError
        cur = args[0]
        for x in args[1:]:
            c = ops.compare(op, x, cur)
            cur = ops.ite(c, x, cur)
        return cur

    def b_abs(self, st, fr, args, kw):
        v = args[0]
        return ops.ite(ops.compare('<', v, 0), ops.neg(v), v)

    def b_pow(self, st, fr, args, kw):
        return ops.arith('**', args[0], args[1])

    def b_list(self, st, fr, args, kw):
        if not args:
            return TupleVal([])
        v = args[0]
        if isinstance(v, TupleVal):
            return v
        return self.materialize(st, fr, v)

    def b_tuple(self, st, fr, args, kw):
        if not args:
            return TupleVal([])
        if isinstance(args[0], TupleVal):
            return args[0]
        return self.materialize(st, fr, args[0])

    def b_dict(self, st, fr, args, kw):
        if not args and not kw:
            return LocalDict()
        if not args:
            return LocalDict(kw)
        if isinstance(args[0], LocalDict):
            return args[0].copy()
        if isinstance(ops.kind_of(args[0]), KDict):
            return args[0]
        raise CheckerError('dict(...) of %r' % (args[0],))

    def b_set(self, st, fr, args, kw):
        if not args:
            return TupleVal([])      # coerced by declared kind on assignment
        v = args[0]
        k = ops.kind_of(v)
        if isinstance(k, KSet):
            return v
        if isinstance(v, TupleVal):
            if not v.items:
                return TupleVal([])
            ek = ops.kind_of(v.items[0])
            return self.coerce_to(st, v, KSet(ek))
        if isinstance(v, tuple) and v[0] == 'range':
            _, lo, hi = v
            res = fresh_val(KSet(KInt), 'rset')
            kk = z3.Int(fresh_name('k'))
            st.assume(z3.ForAll([kk], z3.Select(res.t[0], kk) == z3.And(kk >= lo, kk < hi), patterns=[z3.Select(res.t[0], kk)]))
            return res
        if isinstance(k, KDict):
            return SVal(KSet(k.key), [v.t[0]])
        if isinstance(v, tuple) and v and v[0] == 'view' and v[1] == 'keys':
            return SVal(KSet(v[2].kind.key), [v[2].t[0]])        # set(d.keys()): the domain
        if isinstance(k, KList) and len(k.elem.sorts()) == 1:
            # set(list): x in S <=> x == L[j] for some j (witness index function)
            res = fresh_val(KSet(k.elem), 'lset')
            dom = res.t[0]
            n, arr = v.t[0], v.t[1]
            j = z3.Int(fresh_name('j'))
            st.assume(z3.ForAll([j], z3.Implies(z3.And(j >= 0, j < n), z3.Select(dom, z3.Select(arr, j))),
                                patterns=[z3.Select(arr, j)]))
            wit = z3.Function(fresh_name('wit'), arr.sort().range(), I)
            x = z3.Const(fresh_name('sx'), arr.sort().range())
            st.assume(z3.ForAll([x], z3.Implies(z3.Select(dom, x), z3.And(wit(x) >= 0, wit(x) < n,
                                                                         z3.Select(arr, wit(x)) == x)),
                                patterns=[z3.Select(dom, x)]))
            return res
        raise CheckerError('set(...) of %r' % (v,))

    def b_reversed(self, st, fr, args, kw):
        v = args[0]
        if isinstance(v, TupleVal):
            return TupleVal(list(reversed(v.items)))
        return self.slice(st, fr, self.materialize(st, fr, v), None, None, -1)

    def b_zip(self, st, fr, args, kw):
        args = [self.unwrap_opt(st, fr, a) for a in args]
        if all(isinstance(a, TupleVal) for a in args):
            return TupleVal([TupleVal(list(r)) for r in zip(*[a.items for a in args])])
        return ('zip', list(args))

    b_six_moves_zip = b_zip

    def b_itertools_chain(self, st, fr, args, kw):
        items = []
        for a in args:
            items += ops.tuple_items(a)
        return TupleVal(items)

    def b_enumerate(self, st, fr, args, kw):
        if isinstance(args[0], TupleVal):
            return TupleVal([TupleVal([i, x]) for i, x in enumerate(args[0].items)])
        return ('enumerate', args[0])

    def b_six_itervalues(self, st, fr, args, kw):
        return [(s, r) for s, r, _ in self.container_method(st, fr, args[0], 'values', [], {})]

    b_six_viewvalues = b_six_itervalues

    def b_six_iteritems(self, st, fr, args, kw):
        return [(s, r) for s, r, _ in self.container_method(st, fr, args[0], 'items', [], {})]

    b_six_viewitems = b_six_iteritems

    def b_ipaddress_IPv4Address(self, st, fr, args, kw):
        return args[0]          # addresses are compared and rendered only: kept as their text

    b_ipaddress_ip_address = b_ipaddress_IPv4Address

    def b_math_floor(self, st, fr, args, kw):
        v = args[0]
        if not isinstance(v, SVal):
            import math
            return math.floor(v)
        if v.kind == KInt:
            return v
        return SI(z3.ToInt(v.z))

    def b_six_iterkeys(self, st, fr, args, kw):
        return [(s, r) for s, r, _ in self.container_method(st, fr, args[0], 'keys', [], {})]

    b_six_viewkeys = b_six_iterkeys

    def b_time_time(self, st, fr, args, kw):
        """time.time(): a fresh real, non-decreasing along one execution.  The last value read is the
        ghost heap cell $clock (so contracts can speak about it: clock_now(), old(clock_now()))."""
        key = ('$clock', 0)
        arr = self.H.get(st.heap, key, R)
        t = z3.Real(fresh_name('now'))
        st.assume(t >= z3.Select(arr, 0), t >= 0)
        st.heap[key] = z3.Store(arr, 0, t)
        return SR(t)

    def b_collections_Counter(self, st, fr, args, kw):
        return TupleVal([]) if not args else args[0]

    def b_collections_defaultdict(self, st, fr, args, kw):
        raise CheckerError('defaultdict: declare kind and handle in contract')

    def b_print(self, st, fr, args, kw):
        return None

    def b_getattr(self, st, fr, args, kw):
        if isinstance(args[1], str):
            outs = self.getattr(st, fr, args[0], args[1])
            return outs
        raise CheckerError('getattr with symbolic name')

    def b_socket_gethostbyname(self, st, fr, args, kw):
        """Name resolution as a function of the host name (the contract module declares host_ip); dependency assumption."""
        f, ks, rk = self.reg.ufuncs['host_ip']
        return SVal(rk, [f(self.coerce_to(st, args[0], ks[0]).z)])

    def b_hasattr(self, st, fr, args, kw):
        # an optional attribute of a declared class is modelled as present-or-None: hasattr <=> value is not None
        obj, name = args
        if isinstance(name, str) and isinstance(obj, SVal) and isinstance(obj.kind, KRef) and self.has_field(obj.kind.cls, name):
            v = self.read_field(st, st.heap, obj.z, obj.kind.cls, name)
            if isinstance(v.kind, KOpt):
                return SB(z3.Not(v.t[0]))
            if isinstance(v.kind, KRef) or v.kind == KName:
                return SB(v.z != 0)
            return True
        raise CheckerError('hasattr(%r, %r)' % (obj, name))

    # numpy on Vec
    def b_np_zeros(self, st, fr, args, kw):
        return SVal(KVec3, [ops.zreal(0)] * 3)

    def b_np_array(self, st, fr, args, kw):
        v = args[0]
        if isinstance(ops.kind_of(v), KVec):
            return v
        return self.coerce_to(st, v, KVec3)

    def b_np_maximum(self, st, fr, args, kw):
        a, b = ops.tuple_items(self.coerce_to(st, args[0], KVec3)), ops.tuple_items(self.coerce_to(st, args[1], KVec3))
        return SVal(KVec3, [z3.If(x.z >= y.z, x.z, y.z) for x, y in zip(a, b)])

    def b_np_subtract(self, st, fr, args, kw):
        return ops.arith('-', self.coerce_to(st, args[0], KVec3), self.coerce_to(st, args[1], KVec3))

    def b_np_max(self, st, fr, args, kw):
        items = ops.tuple_items(args[0])
        cur = items[0]
        for x in items[1:]:
            cur = ops.ite(ops.compare('>', x, cur), x, cur)
        return cur

    def b_np_finfo(self, st, fr, args, kw):
        st.assume(EPS > 0)          # machine epsilon: some positive real (its value is never used)
        return LocalDictObj({'eps': SR(EPS)})

    def b_sorted(self, st, fr, args, kw):
        """sorted(iterable, key=f): a permutation of the input, non-decreasing in f (stable order not modelled)."""
        src = self.materialize(st, fr, args[0])
        keyf = kw.get('key')
        n = src.t[0]
        res = fresh_val(src.kind, 'sorted')
        perm = z3.Function(fresh_name('perm'), I, I)
        inv = z3.Function(fresh_name('inv'), I, I)
        j = z3.Int(fresh_name('sj'))
        st.assume(res.t[0] == n)
        st.assume(z3.ForAll([j], z3.Implies(z3.And(j >= 0, j < n),
                                            z3.And(perm(j) >= 0, perm(j) < n, inv(perm(j)) == j,
                                                   *[z3.Select(ra, j) == z3.Select(sa, perm(j))
                                                     for ra, sa in zip(res.t[1:], src.t[1:])])),
                            patterns=[z3.Select(res.t[1], j)]))
        st.assume(z3.ForAll([j], z3.Implies(z3.And(j >= 0, j < n),
                                            z3.And(inv(j) >= 0, inv(j) < n, perm(inv(j)) == j,
                                                   *[z3.Select(ra, inv(j)) == z3.Select(sa, j)
                                                     for ra, sa in zip(res.t[1:], src.t[1:])])),
                            patterns=[inv(j), z3.Select(src.t[1], j)]))
        self.sorted_info[res.t[1].get_id()] = (perm, inv, src)
        if keyf is not None:
            a, b_ = z3.Int(fresh_name('sa')), z3.Int(fresh_name('sb'))
            sf = self.Frame(fr.module, fr.qual, fr.cls, spec=True)
            sf.closure = dict(fr.closure)
            sf.closure.update(st.env)
            bnd = self.push_binder([a, b_])
            try:
                ka = self.call_value(st, sf, keyf, [ops.list_get(res, a)], {})[0][1]
                kb = self.call_value(st, sf, keyf, [ops.list_get(res, b_)], {})[0][1]
                le = ops.asz(ops.compare('<=', ka, kb))
            finally:
                self.close_binder(st, bnd, z3.And(a >= 0, a < n, b_ >= 0, b_ < n))
            st.assume(z3.ForAll([a, b_], z3.Implies(z3.And(a >= 0, a < b_, b_ < n), le)))
        elif not kw.get('reverse') and len(res.t) == 2:
            # natural order of single-leaf elements; for tuple elements only the permutation is assumed (the
            # lexicographic order facts make every later query case-split; fewer hypotheses => sound)
            a, b_ = z3.Int(fresh_name('sa')), z3.Int(fresh_name('sb'))
            le = ops.asz(ops.compare('<=', ops.list_get(res, a), ops.list_get(res, b_)))
            st.assume(z3.ForAll([a, b_], z3.Implies(z3.And(a >= 0, a < b_, b_ < n), le),
                                patterns=[z3.MultiPattern(z3.Select(res.t[1], a), z3.Select(res.t[1], b_))]))
        return res

    # operator module (used through _any/_all)
    def b_operator_eq(self, st, fr, args, kw):
        r = equal(args[0], args[1])
        return r if isinstance(r, bool) else SB(r)

    def _cmp(op):
        def f(self, st, fr, args, kw):
            r = ops.compare(op, args[0], args[1])
            return r if isinstance(r, bool) else SB(r)
        return f

    b_operator_lt = _cmp('<')
    b_operator_le = _cmp('<=')
    b_operator_gt = _cmp('>')
    b_operator_ge = _cmp('>=')

    # ------------------------------------------------------------------ spec builtins
    def spec_builtin(self, st, fr, name, args):
        if name in ('vec_le', 'vec_ge', 'vec_lt', 'vec_eq'):
            op = {'vec_le': '<=', 'vec_ge': '>=', 'vec_lt': '<'}.get(name)
            a, b = ops.tuple_items(args[0]), ops.tuple_items(args[1])
            if op is None:
                return SB(asz(zand(*[equal(x, y) for x, y in zip(a, b)])))
            return SB(asz(zand(*[ops.compare(op, x, y) for x, y in zip(a, b)])))
        if name == 'vec_zero':
            return SVal(KVec3, [ops.zreal(0)] * 3)
        if name == 'is_none':
            r = ops.is_none(args[0])
            return r if isinstance(r, bool) else SB(r)
        if name == 'to_real':
            return ops.coerce(lift(args[0]), KReal)
        if name == 'length':
            return self.b_len(st, fr, args, {})
        if name == 'strlen':
            return SI(z3.Length(lift(args[0], KStr).z))
        if name == 'str_to_int':
            return SI(z3.StrToInt(lift(args[0], KStr).z))
        if name == 'is_digits':
            return SB(self.is_digits(lift(args[0], KStr).z))
        if name == 'dict_put':
            d, k, v = args
            if isinstance(d.kind, KOpt):
                d = SVal(d.kind.inner, d.t[1:])        # total in specs (guarded by `is not None` there)
            new = ops.dict_set(d, k, self.coerce_to(st, v, d.kind.val))
            self.fold_update(st, fr, d, new, k, self.coerce_to(st, v, d.kind.val))
            return new
        if name == 'dict_del':
            d, k = args
            new = ops.dict_del(d, k)
            self.fold_update(st, fr, d, new, k, None)
            return new
        if name == 'set_put':
            return ops.set_add(args[0], args[1])
        if name == 'set_del':
            return ops.set_discard(args[0], args[1])
        if name == 'counter_inc':
            return ops.counter_add(args[0], args[1], lift(args[2], KInt).z)
        if name == 'str_fn':
            # a named uninterpreted function on strings (e.g. the instance name of a container's unique name)
            key = ('$str_fn', args[0], len(args) - 1)
            if key not in self.recfuncs:
                self.recfuncs[key] = z3.Function('str_fn_' + args[0], *([z3.StringSort()] * (len(args) - 1) + [z3.StringSort()]))
            return SVal(KStr, [self.recfuncs[key](*[lift(a, KStr).z for a in args[1:]])])
        if name == 'zk_path':
            # the term treadmill.zknamespace.path.<kind>(...) evaluates to in the code under contract
            return self.opaque_term('opaque.treadmill.zknamespace.path.' + args[0], list(args[1:]))
        if name == 'yaml_of':
            # the serialisation of a JSON-like object: an (injective-agnostic) function of the dict value
            d = lift(args[0])
            if isinstance(d.kind, KOpt):
                d = SVal(d.kind.inner, d.t[1:])
            key = ('$yaml_of', tuple(str(t_.sort()) for t_ in d.t))
            if key not in self.recfuncs:
                self.recfuncs[key] = z3.Function('yaml_of', *([t_.sort() for t_ in d.t] + [I]))
            return SI(self.recfuncs[key](*d.t))
        if name == 'dict_update_opt':
            base, other = lift(args[0]), lift(args[1])
            if isinstance(base.kind, KOpt):
                base = SVal(base.kind.inner, base.t[1:])
            upd = self.dict_update(st, base, SVal(other.kind.inner, other.t[1:]))
            return ops.ite(other.t[0], base, upd)
        if name in ('zk_exists', 'zk_owner', 'zk_content'):
            return self.zk_spec(st, name, args)
        if name == 'any_tok':
            return self.any_token(st, args[0])
        if name == 'any_get':
            from core import KAny
            return SVal(KAny, [self.any_get_fn(args[1])(self.any_token(st, args[0]).z)])
        if name == 'split_part':
            return SVal(KStr, [SPLIT_PART(lift(args[0], KStr).z, lift(args[1], KStr).z, lift(args[2], KInt).z, lift(args[3], KInt).z)])
        if name == 'split_count':
            return SI(SPLIT_COUNT(lift(args[0], KStr).z, lift(args[1], KStr).z, lift(args[2], KInt).z))
        if name == 'str_to_real':
            return SR(STR_TO_REAL(lift(args[0], KStr).z))
        if name == 'str_is_real':
            return SB(STR_IS_REAL(lift(args[0], KStr).z))
        if name in ('fs_kind', 'fs_target', 'path', 'fs_content', 'fs_ctime'):
            return self.fs_spec(st, name, args)
        if name == 'ext':
            return SVal(KExtReal, [asz(truthy(args[0])), ops.coerce(lift(args[1]), KReal).z])
        if name == 'is_int':
            return SB(z3.IsInt(ops.coerce(lift(args[0]), KReal).z))
        if name == 'rdiv':
            return SR(ops.real_div(ops.coerce(lift(args[0]), KReal).z, ops.coerce(lift(args[1]), KReal).z))
        if name == 'eps':
            st.assume(EPS > 0)
            return SR(EPS)
        if name == 'clock_now':
            return SR(z3.Select(self.H.get(st.heap, ('$clock', 0), R), 0))
        if name == 'in_prefix':
            lst, n, item = args
            return SB(self.list_member(lst, lift(n, KInt).z, self.coerce_to(st, item, lst.kind.elem)))
        if name == 'name_of':
            return ops.coerce(lift(args[0], KStr), KName)
        if name == 'str_of':
            return SVal(KStr, [self.to_str(args[0])])
        if name == 'alive':
            return SB(z3.Select(self.alive_arr(st.heap), args[0].z))
        if name == 'cls_is':
            return SB(cls_of_(args[0].z) == self.class_id(args[1]))
        raise CheckerError('spec builtin %s' % name)


from state import cls_of as cls_of_   # noqa: E402

STR_IS_REAL = z3.Function('str_is_real', S, z3.BoolSort())
STR_TO_REAL = z3.Function('str_to_real', S, z3.RealSort())
SPLIT_COUNT = z3.Function('split_count', S, S, I, I)
SPLIT_PART = z3.Function('split_part', S, S, I, I, S)
EPS = z3.Real('EPS')      # np.finfo(float).eps: a positive real constant (2**-52)


class LocalDictObj(LocalDict):
    pass
