"""Engine base: obligations, feasibility, heap access, typing facts, allocation."""
import ast
import os
import z3

import frontend
import ops
from core import (SVal, TupleVal, LocalDict, FuncVal, ClassVal, ModuleVal, ExcVal, KRef, KEnum, KName,
                  KInt, KReal, KBool, KStr, KOpt, KList, KDict, KSet, KCounter, KTuple, KExt, KVec,
                  CheckerError, fresh_name, fresh_val, I, B, R)
from state import St, Heap, ALIVE, cls_of


_qcache = {}
_RECFUNCS = {}


def has_quantifier(e):
    key = e.get_id()
    if key in _qcache:
        return _qcache[key]
    seen = set()
    stack = [e]
    res = False
    while stack:
        x = stack.pop()
        i = x.get_id()
        if i in seen:
            continue
        seen.add(i)
        if z3.is_quantifier(x):
            res = True
            break
        if z3.is_app(x) and x.decl().kind() == z3.Z3_OP_RECURSIVE if hasattr(z3, 'Z3_OP_RECURSIVE') else False:
            res = True
            break
        stack.extend(x.children())
    _qcache[key] = res
    _keep.append(e)
    return res


_keep = []


def const_ids(e, wanted=None):
    """Ids of the uninterpreted constants occurring in e (restricted to `wanted` when given)."""
    out = set()
    seen = set()
    stack = [e]
    while stack:
        x = stack.pop()
        i = x.get_id()
        if i in seen:
            continue
        seen.add(i)
        if z3.is_quantifier(x):
            stack.append(x.body())
            continue
        if z3.is_app(x):
            if x.num_args() == 0:
                if x.decl().kind() == z3.Z3_OP_UNINTERPRETED and (wanted is None or i in wanted):
                    out.add(i)
            else:
                stack.extend(x.children())
    return out


class Obligation:
    __slots__ = ('name', 'pc', 'goal', 'info', 'kind')

    def __init__(self, name, pc, goal, info=None, kind='ob'):
        self.name = name
        self.pc = pc
        self.goal = goal
        self.info = info or {}
        self.kind = kind      # 'ob' (must be valid) | 'canary' (pc must be satisfiable)


class Frame:
    """Static context of the code being executed."""

    def __init__(self, module, qual, cls=None, spec=False, parent=None):
        self.module = module      # frontend.Module
        self.qual = qual
        self.cls = cls            # enclosing class name or None
        self.spec = spec
        self.old = None           # (heap, env) for old()
        self.loop_old = None
        self.result = None
        self.closure = {}         # captured variables for nested defs / lambdas
        self.depth = 0 if parent is None else parent.depth + 1
        self.loop_counter = [0]
        self.call_counter = [0]
        self.prefix = qual
        self.contract = None
        self.bound = {}           # spec-level bound names (ghost, quantifier vars)


class EngineBase:
    def __init__(self, reg):
        self.reg = reg
        self.H = Heap()
        self.obs = []
        self.dry = 0
        self.ax_buffer = []
        self.class_ids = {}
        self.stats = {'paths': 0, 'prune_checks': 0, 'inlined': set(), 'deps_used': set(),
                      'dropped': set(), 'assumed_contracts': set()}
        ops._axioms_hook[:] = [self.ax_buffer.append]
        self.prune_timeout = 300
        self.current_fn = None
        self.recfuncs = _RECFUNCS     # z3 recursive functions are global to the z3 context
        self.binders = []
        self.in_old = 0
        self.full_prune = bool(os.environ.get('VERIF_FULL_PRUNE'))
        self.snapshot_idx = {}
        self.sorted_info = {}
        self.pid = None          # property being checked: clauses tagged for other properties are skipped

    def clauses(self, lst):
        """(index, text, tags) of the clauses that apply to the property being checked."""
        from contracts import clause, clause_label
        out = []
        for j, c in enumerate(lst):
            text, tags = clause(c)
            if tags is None or self.pid is None or self.pid in tags or (tags & getattr(self, 'pid_also', set())):
                out.append((clause_label(c, j), text, tags))
        return out

    # ------------------------------------------------------------ binders
    def push_binder(self, bvs):
        b = {'vars': list(bvs), 'ids': set(v.get_id() for v in bvs), 'facts': [],
             # bound *containers* (array-sorted variables) are not program values: no typing facts about them
             'arr_ids': set(v.get_id() for v in bvs if isinstance(v.sort(), z3.ArraySortRef))}
        self.binders.append(b)
        return b

    def pop_binder(self, b):
        assert self.binders[-1] is b
        self.binders.pop()
        return b['facts']

    def close_binder(self, st, b, guard=None):
        """Typing facts/axioms collected under a binder are invariants of well-typed
        values: assume them universally (guarded by the binder's range), not as antecedents."""
        facts = self.pop_binder(b)
        if facts:
            body = z3.And(*facts) if len(facts) > 1 else facts[0]
            if guard is not None:
                body = z3.Implies(guard, body)
            self.route(st, [z3.ForAll(b['vars'], body)])

    def scope_vars(self):
        out = []
        for b in self.binders:
            out += b['vars']
        return out

    def route(self, st, facts):
        """Assume facts on the path, except those mentioning a variable bound by an
        enclosing quantifier/fold: these go into that binder (as its antecedent)."""
        for f in facts:
            if f is True:
                continue
            if self.binders and not isinstance(f, bool):
                allids = set()
                for b in self.binders:
                    allids |= b['ids']
                used = const_ids(f, allids)
                target = None
                drop = False
                for b in self.binders:
                    if used & b['ids']:
                        target = b
                    if used & b['arr_ids']:
                        drop = True
                if drop:
                    continue
                if target is not None:
                    target['facts'].append(f)
                    continue
            st.assume(f)

    def tf_assume(self, st, facts):
        self.route(st, facts)

    # ------------------------------------------------------------ obligations
    def flush_axioms(self, st):
        if self.ax_buffer:
            buf = list(self.ax_buffer)
            del self.ax_buffer[:]
            self.route(st, buf)

    def oblige(self, st, name, goal, info=None):
        """Record an obligation: pc => goal."""
        self.flush_axioms(st)
        if self.dry:
            return
        if goal is True:
            return
        goal = ops.asz(goal)
        info = dict(info or {})
        info['rec_ctx'] = bool(getattr(self, 'rec_used', False))   # some recursive spec function was applied so far
        self.obs.append(Obligation(name, st.pc, goal, info))

    def canary(self, st, name):
        self.flush_axioms(st)
        if self.dry:
            return
        self.obs.append(Obligation(name, st.pc, None, {'rec_ctx': bool(getattr(self, 'rec_used', False))}, kind='canary'))

    def feasible(self, st):
        """Quick satisfiability check of the path condition (unknown => keep)."""
        self.flush_axioms(st)
        if self.dry:
            return True
        for c in st.pc[-3:]:
            if z3.is_false(c):
                return False
        self.stats['prune_checks'] += 1
        s = z3.Solver()
        s.set('timeout', self.prune_timeout)
        s.set('rlimit', 2000000)
        # pruning uses the quantifier-free part of the path condition only
        # (weaker => an `unsat` answer is still sound for the full condition)
        s.add(*[c for c in st.pc if not has_quantifier(c)])
        if s.check() == z3.unsat:
            return False
        if self.full_prune and any(has_quantifier(c) for c in st.pc[-6:]) is False:
            # second stage: the whole path condition under a small deterministic resource limit
            s2 = z3.Solver()
            s2.set('rlimit', 300000)
            s2.set('timeout', 400)
            s2.add(*st.pc)
            if s2.check() == z3.unsat:
                return False
        return True

    def fork(self, st, cond):
        """Split a state on a z3 Bool / Python bool; returns [(st_true), (st_false)] with None if infeasible."""
        self.flush_axioms(st)
        if isinstance(cond, bool):
            return (st, None) if cond else (None, st)
        cond = z3.simplify(cond)
        if z3.is_true(cond):
            return (st, None)
        if z3.is_false(cond):
            return (None, st)
        st_f = st.copy()
        st.assume(cond)
        st_f.assume(z3.Not(cond))
        t = st if self.feasible(st) else None
        f = st_f if self.feasible(st_f) else None
        return (t, f)

    # ------------------------------------------------------------ classes
    def class_id(self, cname):
        if cname not in self.class_ids:
            self.class_ids[cname] = len(self.class_ids) + 1
        return self.class_ids[cname]

    def schema(self, cname):
        sc = self.reg.classes.get(cname)
        if sc is None:
            raise CheckerError('no class schema for %s' % cname)
        return sc

    def class_module(self, cname):
        sc = self.reg.classes.get(cname)
        if sc is not None and sc.module:
            return frontend.module(sc.module)
        return None

    def mro(self, cname):
        mod = self.class_module(cname)
        if mod is None or cname not in mod.defs:
            return [cname]
        return frontend.class_mro(mod, cname)

    def subclasses(self, cname):
        mod = self.class_module(cname)
        if mod is None or cname not in mod.defs:
            return [cname]
        return [c for c in frontend.subclasses(mod, cname) if c in self.reg.classes]

    def field_decl(self, cname, fname):
        """(declaring class, kind) of a field, searching the MRO base-first."""
        for c in reversed(self.mro(cname)):
            sc = self.reg.classes.get(c)
            if sc is not None and fname in sc.fields:
                if getattr(sc, 'shares', None):
                    return sc.shares, self.reg.classes[sc.shares].kind(self.reg, fname)
                return c, sc.kind(self.reg, fname)
        # also allow subclass fields when the static type is a base (dynamic)
        for c in self.subclasses(cname):
            sc = self.reg.classes.get(c)
            if sc is not None and fname in sc.fields:
                return c, sc.kind(self.reg, fname)
        return None, None

    def has_field(self, cname, fname):
        return self.field_decl(cname, fname)[0] is not None

    # ------------------------------------------------------------ heap
    def read_field(self, st, heap, ref, cname, fname, facts=True):
        dc, kind = self.field_decl(cname, fname)
        if dc is None:
            raise CheckerError('unknown field %s.%s' % (cname, fname))
        terms = []
        for i, sort in enumerate(kind.sorts()):
            arr = self.H.get(heap, ('%s.%s' % (dc, fname), i), sort)
            terms.append(z3.Select(arr, ref))
        v = SVal(kind, terms)
        if facts and st is not None:
            self.tf_assume(st, self.type_facts(v, kind, st))
        return v

    def write_field(self, st, ref, cname, fname, val):
        dc, kind = self.field_decl(cname, fname)
        if dc is None:
            raise CheckerError('unknown field %s.%s' % (cname, fname))
        val = self.coerce_to(st, val, kind)
        for i, (sort, t) in enumerate(zip(kind.sorts(), val.t)):
            key = ('%s.%s' % (dc, fname), i)
            arr = self.H.get(st.heap, key, sort)
            st.heap[key] = z3.Store(arr, ref, t)

    def alive_arr(self, heap):
        return self.H.get(heap, ALIVE, B)

    def alloc(self, st, cname):
        """Fresh object reference, distinct from everything alive."""
        r = z3.Int(fresh_name('new_' + cname))
        al = self.alive_arr(st.heap)
        st.assume(r > 0, z3.Not(z3.Select(al, r)), cls_of(r) == self.class_id(cname))
        st.heap[ALIVE] = z3.Store(al, r, True)
        return SVal(KRef(cname), [r])

    # ------------------------------------------------------------ typing facts
    def type_facts(self, v, kind, st=None, heap=None):
        """Facts every well-typed value of `kind` satisfies (no quantifiers)."""
        out = []
        if not isinstance(v, SVal):
            return out
        if isinstance(kind, KRef):
            r = v.z
            ids = [self.class_id(c) for c in self.subclasses(kind.cls) if not self.reg.classes[c].abstract]
            member = z3.Or(*[cls_of(r) == i for i in ids]) if ids else z3.BoolVal(True)
            al = z3.Select(self.alive_arr(st.heap if (st is not None and heap is None) else (heap or {})), r)
            if self.in_old:
                al = z3.BoolVal(True)    # under old()/at_loop_entry() values and heap may belong to different states
            if getattr(kind, 'nullable', False):
                out.append(z3.Or(r == 0, z3.And(r > 0, member, al)))
            else:
                out.append(z3.And(r > 0, member, al))
        elif kind == KName:
            out.append(v.z >= 0 if getattr(kind, 'nullable', False) else v.z > 0)
        elif isinstance(kind, KEnum):
            n = len(self.reg.enums[kind.ename]['members'])
            lo = 0 if getattr(kind, 'nullable', False) else 1
            out.append(z3.And(v.z >= lo, v.z <= n))
        elif isinstance(kind, KList):
            out.append(v.t[0] >= 0)
        elif isinstance(kind, KOpt):
            inner = SVal(kind.inner, v.t[1:])
            for f in self.type_facts(inner, kind.inner, st, heap):
                out.append(z3.Or(v.t[0], f))
        elif isinstance(kind, KTuple):
            pos = 0
            for k in kind.items:
                out += self.type_facts(SVal(k, v.t[pos:pos + k.nleaves]), k, st, heap)
                pos += k.nleaves
        return out

    # ------------------------------------------------------------ coercion (may allocate)
    def any_token(self, st, v):
        """Token of kind Any for a value: a function of the value (equal values get equal tokens)."""
        from core import KAny, KStr, KName
        if v is None:
            return SVal(KAny, [z3.IntVal(0)])
        if isinstance(v, LocalDict):
            keys = sorted(v.d, key=str)
            toks = [self.any_token(st, v.d[k_]).z for k_ in keys]
            f = self.recfuncs.setdefault(('$any_dict', tuple(map(str, keys))),
                                         z3.Function('any_dict_' + '_'.join(map(str, keys)), *([I] * len(keys) + [I])))
            tok = f(*toks)
            # projections (spec: any_get(token, key)): ground instances of  any_get_k(any_dict(.., v_k, ..)) == v_k
            for k_, t_ in zip(keys, toks):
                st.assume(self.any_get_fn(str(k_))(tok) == t_)
            return SVal(KAny, [tok])
        if isinstance(v, TupleVal):
            toks = [self.any_token(st, x).z for x in v.items]
            f = self.recfuncs.setdefault(('$any_tuple', len(toks)), z3.Function('any_tuple_%d' % len(toks), *([I] * len(toks) + [I])))
            return SVal(KAny, [f(*toks) if toks else z3.IntVal(-1)])
        v = ops.lift(v)
        from core import KOpt
        if isinstance(v, SVal) and isinstance(v.kind, KOpt) and v.kind.inner.name == 'Any':
            return SVal(KAny, [z3.If(v.t[0], z3.IntVal(0), v.t[1])])       # None is token 0
        if isinstance(v, SVal) and isinstance(v.kind, KOpt) and len(v.t) == 2:
            inner = self.any_token(st, SVal(v.kind.inner, v.t[1:]))
            return SVal(KAny, [z3.If(v.t[0], z3.IntVal(0), inner.z)])
        if isinstance(v, SVal) and len(v.t) == 1:
            srt = v.z.sort()
            if srt == I:
                f = self.recfuncs.setdefault(('$any_of', v.kind.name), z3.Function('any_of_' + v.kind.name, I, I))
                return SVal(KAny, [v.z if v.kind.name == 'Any' else f(v.z)])
            f = self.recfuncs.setdefault(('$any_of', str(srt)), z3.Function('any_of_' + str(srt), srt, I))
            return SVal(KAny, [f(v.z)])
        raise CheckerError('cannot turn %r into an opaque token' % (v,))

    def any_get_fn(self, key):
        return self.recfuncs.setdefault(('$any_get', key), z3.Function('any_get_' + key, I, I))

    def coerce_to(self, st, v, kind):
        if isinstance(v, SVal) and v.kind == kind:
            return v
        if getattr(kind, 'name', None) == 'Any' and not (isinstance(v, SVal) and v.kind.name == 'Any'):
            return self.any_token(st, v)
        if isinstance(v, tuple) and v and isinstance(v[0], str) and v[0] in ('view', 'range', 'zip', 'enumerate') \
                and isinstance(kind, KList):
            return self.materialize(st, self.Frame(None, 'coerce', None), v, kind.elem)
        if isinstance(v, LocalDict):
            if isinstance(kind, KRef):
                sc = self.schema(kind.cls)
                ref = self.alloc(st, kind.cls)
                for k, item in v.d.items():
                    self.write_field(st, ref.z, kind.cls, k, item)
                return ref
            if isinstance(kind, KDict) and not v.d:
                e = ops.empty_of(kind)
                self.fold_empty(st, e)
                return e
            raise CheckerError('cannot coerce dict literal to %r' % kind)
        if isinstance(v, TupleVal):
            if isinstance(kind, KList):
                out = ops.empty_of(kind)
                for it in v.items:
                    out = ops.list_append(out, self.coerce_to(st, it, kind.elem))
                return out
            if isinstance(kind, KTuple):
                terms = []
                for it, k in zip(v.items, kind.items):
                    terms += list(self.coerce_to(st, it, k).t)
                return SVal(kind, terms)
            if isinstance(kind, KVec):
                return SVal(kind, [ops.coerce(ops.lift(x), KReal).z for x in v.items])
            if isinstance(kind, KSet):
                out = ops.empty_of(kind)
                for it in v.items:
                    out = ops.set_add(out, it)
                return out
            if isinstance(kind, KCounter):
                out = ops.empty_of(kind)      # Counter(iterable): one per occurrence
                for it in v.items:
                    out = ops.counter_add(out, it, 1)
                return out
        if isinstance(kind, KOpt) and isinstance(v, (TupleVal, LocalDict)):
            inner = self.coerce_to(st, v, kind.inner)
            return SVal(kind, [z3.BoolVal(False)] + list(inner.t))
        from core import KStr, KName
        if kind == KStr and isinstance(v, SVal) and v.kind == KName:
            return SVal(KStr, [self.to_str(v)])       # a name used as text
        return ops.coerce(v, kind)

    # ------------------------------------------------------------ symbolic inputs
    def symbolic(self, st, kind, name):
        v = SVal(kind, [z3.Const('%s_%d' % (name, i), s) if kind.nleaves > 1 else z3.Const(name, s)
                        for i, s in enumerate(kind.sorts())])
        self.tf_assume(st, self.type_facts(v, kind, st))
        return v
