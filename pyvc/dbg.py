"""Debug helper: dump the SMT-LIB text of obligations.  usage: dbg.py <PID> <qualname> <name-substring> [outdir]"""
import importlib, os, sys
HERE = os.path.dirname(os.path.abspath(__file__))
sys.path.insert(0, HERE)
sys.path.insert(0, os.path.join(os.path.dirname(HERE), 'contracts'))
import z3
import engine, props
from contracts import REG

pid, qual, sub = sys.argv[1:4]
out = sys.argv[4] if len(sys.argv) > 4 else '/tmp/obs'
os.makedirs(out, exist_ok=True)
for m in props.PROPS[pid]['contract_modules']:
    importlib.import_module(m)
E = engine.Engine(REG)
E.pid = pid
E.pid_also = set(props.PROPS[pid].get('includes', []))
E.verify(qual)
k = 0
for ob in E.obs:
    if sub in ob.name and ob.kind == 'ob':
        s = z3.Solver()
        seen, pcs = set(), []
        for c in ob.pc:
            if c.get_id() not in seen:
                seen.add(c.get_id())
                pcs.append(c)
        pcs = pcs + engine._rec_axioms_for(pcs + [ob.goal])
        s.add(*pcs)
        s.add(z3.Not(ob.goal))
        path = os.path.join(out, 'ob_%d.smt2' % k)
        with open(path, 'w') as f:
            f.write(s.to_smt2())
        print(path, ob.name, len(pcs), 'hyps')
        k += 1
