"""./check — command line of the contract checker (DESIGN 8).

  ./check setup
  ./check <ID> [--tier quick|thorough] [--only <qual-substring>]
  ./check <ID> --replay <file>
  ./check all [--tier quick]
Exit codes: 0 held (possibly KNOWN-FINDING lines) / 1 violation / 3 checker error.
"""
import importlib
import json
import os
import subprocess
import sys
import time
import traceback

HERE = os.path.dirname(os.path.abspath(__file__))
ROOT = os.path.dirname(HERE)
sys.path.insert(0, HERE)
sys.path.insert(0, os.path.join(ROOT, 'contracts'))

import z3  # noqa: E402
from core import CheckerError  # noqa: E402
import frontend  # noqa: E402
import props  # noqa: E402

REPO = os.environ.get('VERIF_REPO', '/repo')
VENV_PY = '/venv/bin/python'


def load_known():
    with open(os.path.join(ROOT, 'known_findings.json')) as f:
        return json.load(f)


def run_property(pid, tier, only=None):
    from contracts import REG
    import engine
    t_start = time.time()
    spec = props.PROPS[pid]
    for m in spec['contract_modules']:
        importlib.import_module(m)
    seed = int(os.environ.get('VERIF_SEED', '0'))
    timeout_ms = 30000 if tier == 'quick' else 120000
    funcs = [q for q in spec['functions'] if only is None or only in q]
    all_obs = []
    fn_info = []
    stats_all = {'inlined': set(), 'deps_used': set(), 'dropped': set(), 'assumed_contracts': set()}
    errors = []
    for q in funcs:
        E = engine.Engine(REG)
        E.pid = pid
        E.pid_also = set(spec.get('includes', []))     # clauses of these properties are assumed (proved by their own check)
        try:
            mod, node, cnode = frontend.find_def(q)
            t0 = time.time()
            paths = E.verify(q)
            fn_info.append({'qualname': q, 'sha256_16': frontend.sha_of(mod, node), 'paths': paths,
                            'obligations': sum(1 for o in E.obs if o.kind == 'ob'), 'gen_s': round(time.time() - t0, 2)})
        except CheckerError as ex:
            errors.append('%s: %s' % (q, ex))
            continue
        except Exception as ex:  # noqa
            errors.append('%s: engine exception %r\n%s' % (q, ex, traceback.format_exc()[-1500:]))
            continue
        for k in stats_all:
            stats_all[k] |= E.stats[k]
        also = set(spec.get('includes', []))
        all_obs += [o for o in E.obs if o.info.get('tags') is None or pid in o.info['tags'] or (o.info['tags'] & also)]
    known0 = set(k['obligation'] for k in load_known().get('findings', []) if k['property'] == pid)
    results = engine.discharge(all_obs, timeout_ms=timeout_ms, seed=seed, no_retry=known0)
    # group by obligation name
    groups = {}
    canaries = {}
    for ob, r in zip(all_obs, results):
        tags = ob.info.get('tags')
        if tags is not None and pid not in tags and not (tags & set(spec.get('includes', []))):
            continue            # clause serves other properties only
        if ob.kind == 'canary':
            canaries.setdefault(ob.name, []).append(r)
        else:
            groups.setdefault(ob.name, []).append((ob, r))
    known = [k for k in load_known().get('findings', []) if k['property'] == pid]
    known_names = {k['obligation']: k for k in known}
    discharged, failed, backend_count = [], [], {}
    solver_total, slowest = 0.0, []
    for name, items in groups.items():
        ok = all(r['result'] == 'unsat' for _, r in items)
        for _, r in items:
            backend_count[r['backend']] = backend_count.get(r['backend'], 0) + 1
            solver_total += r['time']
            slowest.append((round(r['time'], 2), name))
        (discharged if ok else failed).append(name)
    slowest.sort(reverse=True)
    # vacuity: a canary refuted on every path of its function/loop => contradictory assumptions
    vacuous = [n for n, rs in canaries.items() if all(r['result'] == 'unsat' for r in rs)]
    for n in vacuous:
        errors.append('vacuity: assumptions at %s are contradictory' % n)
    # baseline: every expected obligation name must have been generated
    base_path = os.path.join(ROOT, 'baseline', '%s.json' % pid)
    missing = []
    failed_fns = [e.split(': ')[0] for e in errors]
    if os.path.exists(base_path) and only is None:
        with open(base_path) as f:
            base = json.load(f)
        missing = [n for n in base['obligations'] if n not in groups]
        by_fn = {}
        for n in missing:
            by_fn.setdefault(n.split('#')[0], []).append(n)
        for fn, ns in by_fn.items():
            if fn in failed_fns:
                continue        # already reported: the function could not be brought under the verifier
            errors.append('%d baseline obligations of %s not generated (stale anchor?): %s ...' % (len(ns), fn, ns[0]))
    bounded_fallback = None
    if errors and spec.get('replay'):
        # a function under contract fell outside the verifier's reach (unsupported construct, engine error):
        # bounded stand-in = the property's failing-input search on the real code (never counted as proved)
        bounded_fallback = run_replay_search(pid, spec['replay'], 'bounded-fallback', [{'checker_errors': errors[:5]}])
        spec['replay_result'] = bounded_fallback
        if bounded_fallback:
            failed.append('bounded-fallback:' + ';'.join(sorted(set(failed_fns)))[:200])
    # extra checks (scans, bounded stand-ins)
    extra = {}
    for name, fn in spec.get('extra', []):
        try:
            extra[name] = fn(tier, seed)
            for v in extra[name].get('violations', []):
                failed.append(v)
                if extra[name].get('failing_input') and 'replay_result' not in spec:
                    spec['replay_result'] = extra[name]['failing_input']
        except CheckerError as ex:
            errors.append('%s: %s' % (name, ex))
    violations = []
    known_hit = []
    for name in failed:
        if name in known_names:
            known_hit.append(known_names[name])
        else:
            violations.append(name)
    # report
    evdir = os.environ.get('VERIF_EVIDENCE_DIR', os.path.join(ROOT, 'evidence'))
    os.makedirs(evdir, exist_ok=True)
    os.makedirs(os.path.join(ROOT, 'replays'), exist_ok=True)
    out_lines = []
    for k in known_hit:
        out_lines.append('KNOWN-FINDING: property=%s %s' % (pid, k['what_fails']))
    vio_count = 0
    for name in violations:
        items = groups.get(name, [])
        solver_out = [{'result': r['result'], 'backend': r['backend'], 'time_s': round(r['time'], 2),
                       'model': r['model'], 'clause': ob.info.get('text')} for ob, r in items if r['result'] != 'unsat']
        rp = os.path.join(ROOT, 'replays', '%s_%s.json' % (pid, ''.join(ch if ch.isalnum() else '_' for ch in name)[-80:]))
        hook = spec.get('replay')
        if hook and 'replay_result' not in spec:
            spec['replay_result'] = run_replay_search(pid, hook, name, solver_out)   # one search per run
        found = spec.get('replay_result')
        doc = {'property': pid, 'obligation': name, 'solver_output': solver_out, 'repo': REPO,
               'failing_input': found, 'replay_cmd': './check %s --replay %s' % (pid, rp)}
        with open(rp, 'w') as f:
            json.dump(doc, f, indent=1, default=str)
        vio_count += 1
        out_lines.append('VIOLATION property=%s replay=%s%s' % (pid, rp, '' if found else ' no-failing-input-found'))
    n_obs = len(groups) - len(known_hit)
    ev = {
        'property_id': pid, 'tier': tier, 'seed': seed, 'level': 'proof',
        'coverage': {
            'obligations': max(n_obs, 0), 'discharged': len(discharged),
            'checker_cmd': './check %s --tier %s' % (pid, tier),
            'trusted_base': props.TRUSTED_BASE + spec.get('trusted', []),
            'functions_under_contract': fn_info,
            'obligation_instances': sum(len(v) for v in groups.values()),
            'obligations_by_backend': backend_count,
            'solver_time_s': {'total': round(solver_total, 2), 'slowest': slowest[:10],
                              'over_5s': [x for x in slowest if x[0] > 5][:40]},
            'refuted_known': [k['obligation'] for k in known_hit],
            'undischarged': violations,
            'vacuity': {'canaries': len(canaries), 'not_refuted': len(canaries) - len(vacuous)},
            'inlined': sorted(stats_all['inlined']), 'dropped_by_extraction': sorted(stats_all['dropped']) + props.DROPPED,
            'dependency_contracts_used': sorted(stats_all['deps_used']) + sorted(stats_all['assumed_contracts']),
            'extra_checks': extra,
            'bounded_fallback': ({'ran': True, 'failing_input_found': bool(bounded_fallback)} if errors and spec.get('replay') else {'ran': False}),
            'samples': [{'obligation': n, 'clause': groups[n][0][0].info.get('text'), 'instances': len(groups[n])}
                        for n in list(groups)[:6]],
            'checker_errors': errors,
        },
        'assumptions': props.ASSUMPTIONS + spec.get('assumptions', []),
        'wall_s': round(time.time() - t_start, 2),
        'violations': vio_count,
    }
    with open(os.path.join(evdir, '%s.json' % pid), 'w') as f:
        json.dump(ev, f, indent=1, default=str)
    for l in out_lines:
        print(l)
    print('%s: %d obligation names (%d instances), %d discharged, %d known, %d violations, %d checker errors, %.1fs'
          % (pid, len(groups), sum(len(v) for v in groups.values()), len(discharged), len(known_hit), vio_count,
             len(errors), time.time() - t_start))
    for e in errors:
        print('CHECKER-ERROR %s' % e)
    if os.environ.get('VERIF_WRITE_BASELINE') and not errors and only is None:
        os.makedirs(os.path.join(ROOT, 'baseline'), exist_ok=True)
        with open(base_path, 'w') as f:
            json.dump({'obligations': sorted(groups)}, f, indent=1)
    if vio_count:
        return 1
    if errors:
        return 3
    return 0


def run_replay_search(pid, hook, name, solver_out):
    """Ask the property's replay harness (real code under /venv python) for a failing input."""
    env = dict(os.environ)
    env['PYTHONPATH'] = os.path.join(REPO, 'lib', 'python')
    env['VERIF_PROP'] = pid
    try:
        p = subprocess.run([VENV_PY, os.path.join(ROOT, 'replay', hook), '--search', name],
                           input=json.dumps(solver_out, default=str), capture_output=True, text=True, timeout=300, env=env)
    except subprocess.TimeoutExpired:
        return None
    for line in p.stdout.splitlines():
        if line.startswith('FAILING-INPUT '):
            return json.loads(line[len('FAILING-INPUT '):])
    return None


def do_replay(pid, path):
    with open(path) as f:
        doc = json.load(f)
    spec = props.PROPS[pid]
    print('obligation: %s' % doc['obligation'])
    if not doc.get('failing_input'):
        print('no failing input recorded; solver output:')
        print(json.dumps(doc['solver_output'], indent=1)[:3000])
        return 1
    env = dict(os.environ)
    env['PYTHONPATH'] = os.path.join(REPO, 'lib', 'python')
    env['VERIF_PROP'] = pid
    p = subprocess.run([VENV_PY, os.path.join(ROOT, 'replay', spec['replay']), '--input', json.dumps(doc['failing_input'])],
                       capture_output=True, text=True, env=env)
    print(p.stdout[-3000:])
    print(p.stderr[-2000:])
    return p.returncode


def setup():
    import z3 as _z
    print('z3', _z.get_version_string())
    import compileall
    compileall.compile_dir(HERE, quiet=1)
    for d in ('evidence', 'replays'):
        os.makedirs(os.path.join(ROOT, d), exist_ok=True)
    print('setup ok')
    return 0


def main(argv):
    if not argv:
        print(__doc__)
        return 3
    if argv[0] == 'setup':
        return setup()
    pid = argv[0]
    tier = os.environ.get('VERIF_TIER', 'quick')
    only = None
    if '--tier' in argv:
        tier = argv[argv.index('--tier') + 1]
    if '--only' in argv:
        only = argv[argv.index('--only') + 1]
    if '--replay' in argv:
        return do_replay(pid, argv[argv.index('--replay') + 1])
    if pid == 'all':
        rc = 0
        for p in sorted(props.PROPS):
            # one process per property: contract modules of different properties declare the same dependencies
            rc = max(rc, subprocess.call([sys.executable, os.path.abspath(__file__), p, '--tier', tier]))
        return rc
    try:
        return run_property(pid, tier, only)
    except CheckerError as ex:
        print('CHECKER-ERROR %s' % ex)
        return 3


if __name__ == '__main__':
    sys.exit(main(sys.argv[1:]))
