"""Property table: which functions under contract, extra checks and replay harness serve each property."""

TRUSTED_BASE = [
    'pyvc (frontend, symbolic executor, prelude, SMT encoding) - /verif/pyvc',
    'z3 5.1.0 (python API), /usr/bin/z3 4.8.12 and cvc5 1.0.3 as fall-back on `unknown`',
    'Python semantics assumed by the encoding: unbounded int, float treated as mathematical real, '
    'single thread, partial correctness (termination not proved), arbitrary dict/set iteration order',
    'containers modelled as values (SMT arrays); aliasing of mutable containers excluded by assumption (DESIGN 3.3)',
    'sidecar contracts under /verif/contracts; contracts marked assumed=True are dependency contracts, not proved',
]
ASSUMPTIONS = [
    'float arithmetic treated as real arithmetic',
    'no concurrency inside one call; termination not proved',
    'typing facts of inputs (names non-empty, references alive and of the declared class) assumed',
]
DROPPED = ['docstrings', '_LOGGER/logging calls', 'with lc.LogContext (transparent)', 'decorators (schema.schema -> '
           'source of input type invariants)']

PROPS = {
    'C19': {
        'contract_modules': ['c19_allocation_api'],
        'functions': ['treadmill.api.allocation:_check_limit', 'treadmill.api.allocation:_calc_free',
                      'treadmill.api.allocation:_calc_free_traits', 'treadmill.api.allocation:_check_capacity'],
        'replay': 'c19.py',
        'assumptions': [
            'admin (LDAP) layer returns schema-valid reservation and partition records; multi-valued LDAP '
            'attributes are sets (no trait listed twice in one reservation, no two limits for one trait)',
            'utils.cpu_units / utils.size_to_bytes return cpu_val / size_val of a schema-valid string '
            '(their own contracts are discharged under C01 units, assumed here)',
            'the reservation create/update closures call _check_capacity before writing (read off the source; '
            'closures inside API.__init__ are not executed symbolically)',
            'the directory content is read once per request (no concurrent writer between check and write)',
        ],
        'trusted': ['json-schema validation of requests (source of valid_cpu/valid_size preconditions)'],
    },
}
