"""Property table: which functions under contract, extra checks and replay harness serve each property."""

TRUSTED_BASE = [
    'pyvc (frontend, symbolic executor, prelude, SMT encoding) - /verif/pyvc',
    'z3 5.1.0 (python API), /usr/bin/z3 4.8.12 and cvc5 1.0.3 as fall-back on `unknown`',
    'Python semantics assumed by the encoding: unbounded int, float treated as mathematical real, '
    'single thread, partial correctness (termination not proved), arbitrary dict/set iteration order',
    'containers modelled as values (SMT arrays); aliasing of mutable containers excluded by assumption (DESIGN 3.3)',
    'sidecar contracts under /verif/contracts; contracts marked assumed=True are dependency contracts, not proved',
]
ASSUMPTIONS = [
    'float arithmetic treated as real arithmetic',
    'no concurrency inside one call; termination not proved',
    'typing facts of inputs (names non-empty, references alive and of the declared class) assumed',
]
DROPPED = ['docstrings', '_LOGGER/logging calls', 'with lc.LogContext (transparent)', 'decorators (schema.schema -> '
           'source of input type invariants)']



def bounded_replay(hook, pid, what, n_quick, n_thorough):
    """Bounded stand-in (never counted as proved): the property's oracle on N deterministic random inputs of the
    real function, run under /venv python."""
    def run(tier, seed):
        import json, os, subprocess
        root = os.path.dirname(os.path.dirname(os.path.abspath(__file__)))
        repo = os.environ.get('VERIF_REPO', '/repo')
        n = n_quick if tier == 'quick' else n_thorough
        env = dict(os.environ, PYTHONPATH=os.path.join(repo, 'lib', 'python'), VERIF_PROP=pid, VERIF_SEED=str(seed))
        p = subprocess.run(['/venv/bin/python', os.path.join(root, 'replay', hook), '--bounded', str(n)],
                           capture_output=True, text=True, timeout=1800, env=env)
        out = {'kind': 'bounded', 'function': what, 'bound': '%d random inputs, fixed seed' % n, 'violations': []}
        for line in p.stdout.splitlines():
            if line.startswith('FAILING-INPUT '):
                out['violations'].append('bounded:' + what)
                out['failing_input'] = json.loads(line[len('FAILING-INPUT '):])
        if p.returncode != 0 or not p.stdout.strip():
            from core import CheckerError
            raise CheckerError('bounded stand-in %s failed to run: %s' % (hook, p.stderr[-400:]))
        return out
    return run


S = 'treadmill.scheduler:'
SCHED_CORE = [S + x for x in (
    'IdentityGroup.acquire', 'IdentityGroup.release', 'IdentityGroup.adjust',
    'Application.acquire_identity', 'Application.release_identity', 'Node.children_iter',
    'Node.increment_affinity', 'Node.decrement_affinity', 'Bucket.adjust_capacity_up', 'Bucket.adjust_capacity_down',
    'Server.check_app_lifetime', 'Server.put', 'Server.remove', 'Server.restore', 'Server.renew',
    'Server.remove_all', 'Server.set_state')]
SCHED_CELL = [S + x for x in (
    'PlacementFeasibilityTracker.feasible', 'PlacementFeasibilityTracker.adjust',
    'SpreadStrategy.suggested_node', 'SpreadStrategy.next_node', 'Bucket.get_affinity_strategy', 'Bucket.put',
    'Cell._fix_invalid_placements', 'Cell._handle_inactive_servers', 'Cell._handle_blacklisted_apps',
    'Cell._fix_invalid_identities', 'Cell._find_placements', 'Cell._record_rank_and_util',
    'Cell.schedule_alloc', 'Cell.schedule')]
SCHED_ASSUME = [
    'scheduler.DIMENSION_COUNT == 3 (set by every production entry point)',
    'time.time() is non-decreasing along one execution',
    'Cell.members() returns the name->server map of the tree leaves and the tree is closed under children '
    '(tree_ok); Node.add_node/remove_node are not yet under contract',
    'Allocation.utilization_queue lists every instance of the allocation tree exactly once and those are the '
    'cell\'s instances of that partition (C06 clause 1 / InvAlloc): assumed at the call in schedule_alloc',
    'Application.renew is False in every reachable state (no production writer except the re-arm inside '
    '_find_placements): renewal branch of _find_placements is therefore unreachable and not exercised',
    'qidx(L, x) is the least index of x in L (definitional axiom of a witness function)',
    'instance demand vectors and capacities are non-negative (API schema)',
]

PROPS = {
    'C01': {
        'contract_modules': ['scheduler_core', 'scheduler_cell'],
        'functions': SCHED_CORE + SCHED_CELL,
        'replay': 'scheduler.py',
        'assumptions': SCHED_ASSUME + [
            'history closure: the cycle invariant is assumed to hold (in its between-cycles form: weak_link) when '
            'schedule() is entered; event handlers outside Cell.schedule (loader/master, add_app/remove_app, '
            'server add/remove) are not yet under contract',
            'unit spellings (1G = 1024M, 100% = 100): the parsers utils.megabytes/cpu_units are not yet under '
            'contract (string theory); not decided by this check'],
    },
    'C03': {
        'contract_modules': ['scheduler_core', 'scheduler_cell'],
        'functions': SCHED_CORE + SCHED_CELL + [S + 'Cell.add_app', S + 'Node.add_labels', S + 'TraitSet._recalculate',
                                                S + 'Node.add_node'],
        'replay': 'scheduler.py',
        'assumptions': SCHED_ASSUME + [
            'lease clause is proved against the clock value at the start of the placing call (a lower bound of the '
            'value check_app_lifetime reads); placement_expiry is computed from a later clock read (drift not bounded)',
            'server labels, traits, state and valid_until are not written during a cycle (frame conditions, proved); '
            'events that change them between cycles (server re-labelled, traits changed) are not under contract',
            'trait masks are 64-bit vectors; traits.encode never hands the invalid bit to a server (not under contract)',
            'partition root allocations carry their partition label (PartitionDict.__missing__)',
        ],
    },
    'C04': {
        'contract_modules': ['scheduler_core', 'scheduler_cell', 'scheduler_c04'],
        'functions': SCHED_CORE + SCHED_CELL + [S + x for x in (
            'Node.check_app_affinity_limit_up', 'Node.add_node', 'Node.remove_node', 'Node.reset_children')],
        'replay': 'scheduler.py',
        'assumptions': SCHED_ASSUME + [
            'anc (a is a proper ancestor of n) is an uninterpreted relation tied to the parent field by tree_wf '
            '(transitive closure of parent, irreflexive, ancestors are buckets, children lists agree with parent '
            'links); tree_wf is assumed when a cycle or a tree operation starts and is not proved to be preserved '
            'by add_node/remove_node/reset_children (their counter effects are)',
            'limit clause: lim_ok (count <= limit at every node for every affinity) is an inductive invariant of the '
            'placement walk and a postcondition of every pass and of Cell.schedule; it is assumed at cycle entry '
            '(history closure) together with limits_shared: instances of one affinity declare the same limits (the '
            'property\'s quantifier) and finite limits are whole numbers (manifest integers)',
            'counter clause: proved in delta form - Server.put/restore add exactly one to the affinity\'s counter of '
            'the server and every ancestor, remove/remove_all subtract exactly what leaves, add_node/remove_node/'
            'reset_children add/subtract exactly the attached/detached subtree\'s counters, nothing else moves; '
            'absolute exactness is proved at server level (counter == number of instances in Server.apps with that '
            'affinity); for buckets it follows from the deltas by induction over the history, which is not machine-checked',
            'raising the limit of an affinity while instances are placed, or re-declaring an instance\'s affinity, '
            'is outside the property (limits are fixed per affinity name: aff_limit)',
        ],
    },
    'C07': {
        'contract_modules': ['scheduler_core', 'scheduler_cell', 'scheduler_c04', 'scheduler_c07'],
        'functions': SCHED_CORE + SCHED_CELL + [S + 'Node.check_app_affinity_limit_up', S + 'Cell.add_app'],
        'includes': ['C03', 'C04'],
        'replay': 'scheduler.py',
        'assumptions': SCHED_ASSUME + [
            'decided for one walk of one queue (Cell._find_placements = one partition\'s allocation in one cycle): an '
            'instance on an up member server when the walk starts, not blacklisted and not over its utilisation cap, '
            'is on that server when the walk ends unless an instance strictly ahead of it gained a placement during '
            'the walk. The pre-passes of the cycle (server gone, retention expired, blacklisted, invalidated identity) '
            'are the exemptions the statement lists and are decided under C08/C05; the composition over the '
            'partitions of one cycle is not machine-checked (walks of different partitions touch disjoint instances)',
            'clauses tagged C03 (standing placements are valid; only visited instances or remembered victims changed '
            'server) and C04 (counter deltas, limits, tree_wf, limits_shared with limits >= 0) are hypotheses here and '
            'are discharged by ./check C03 and ./check C04; the standing clause is violated by the known finding '
            'Cell.add_app#ensures[standing] (an instance moved to another partition keeps its server) and such an '
            'instance can then be displaced for nobody - reported as KNOWN-FINDING for C07 as well',
            'lemma given to the solver, not proved by it: a fold (sum over the `evicted` map) of non-negative terms '
            'is non-negative (pend_demand, pend_count); demand vectors are non-negative (axiom demand-nonneg)',
            'lease renewal (Application.renew) is never set (O1), so the "failing a lease renewal" exemption is vacuous',
        ],
    },
    'C05': {
        'contract_modules': ['scheduler_core', 'scheduler_cell'],
        'functions': SCHED_CORE + SCHED_CELL + [S + x for x in (
            'IdentityGroup.__init__', 'Cell.configure_identity_group', 'Cell.remove_identity_group',
            'Cell.add_app', 'Cell.remove_app')],
        'replay': 'scheduler.py',
        'assumptions': SCHED_ASSUME + [
            'history closure: Cell.schedule assumes the between-cycles identity invariant (ident_between: groups '
            'consistent, held identities distinct, not on the free list, non-negative); it is proved to be preserved by '
            'add_app, remove_app, configure_identity_group, remove_identity_group and by the cycle itself; '
            'Loader.restore_placement/force_set_identity (master start-up) are not under contract. Clause 4 (not placed '
            '=> no identity) is NOT assumed at cycle entry any more: it is established by the cycle for every instance '
            'whatever was held before (a removed server leaves unplaced holders)',
            'every instance of the cell belongs to exactly one partition (uninterpreted app_label), that partition is in '
            'Cell.partitions, and Allocation.utilization_queue of a partition lists exactly the cell\'s instances of '
            'that partition (C06 clause 1 / InvAlloc; assumed contract)',
        ],
    },
    'C08': {
        'contract_modules': ['scheduler_core', 'scheduler_cell', 'c08_loader'],
        'functions': SCHED_CORE + SCHED_CELL + ['treadmill.scheduler.loader:Loader.adjust_server_state'],
        'replay': 'scheduler.py',
        'assumptions': SCHED_ASSUME + [
            'fail-over half: Loader.adjust_server_state is under contract over the ghost store (c08_loader): a server recorded '
            'as frozen is frozen after a reload, no presence => down, a restored down keeps the time it was entered; the '
            'stored record {state, since} is an opaque payload (projections any_get, decoders tok_state / tok_real, `not '
            'payload` = tok_empty - uninterpreted, a stored state is assumed to be a member of State); Backend.get_default '
            'does not say what is returned for a missing node, so the clause "present => up" is proved for an existing '
            'record only; _record_server_state is an assumed summary',
            'proved per pass of the cycle (each pass has the clause as its own postcondition): inactive-server pass '
            'removes an instance only from a down server whose since + retention <= clock (or retention None) or a '
            'frozen server when marked unschedule; blacklist pass only blacklisted ones; placement walk never takes '
            'an instance off a non-up server unless over its utilisation cap and assigns only to up servers; '
            'blacklisted => unplaced is a postcondition of Cell.schedule. The composition of the per-pass clauses '
            'into one end-of-cycle statement relative to the cycle-start state is not machine-checked',
            '"loses it in the first cycle after that" (removal once expired) is not stated as an obligation: only '
            'the safety direction (not removed early, never evicted meanwhile) is',
            'Server.set_state (down/up/frozen transitions, since recorded only on a real change) is under contract; '
            'the loader/master handlers that call it are not',
        ],
    },
    'C20': {
        'contract_modules': ['c20_appmonitor'],
        'functions': ['treadmill.sproc.appmonitor:reevaluate', 'treadmill.sproc.appmonitor:_run_sync._monitor_data_watch'],
        'replay': 'c20.py',
        'assumptions': [
            'per evaluation only: the clauses about the two REST requests are call-site obligations at the two '
            'restclient.post calls of reevaluate (the request strings are formatted from exactly the locals the '
            'clauses speak about); restclient.post returns or raises NotFoundError/BadRequestError/ValidationError/'
            'other Exception and has no effect on the monitor state (dependency contract)',
            'never both create and delete for one application in one evaluation: the two call sites assert '
            'count > current and count < current for the same grouped/monitors maps, and a dict iteration visits '
            'each key once (dependency contract of dict iteration)',
            'monitor records are valid on entry of reevaluate (count >= 0, rate == 2*count/3600, 0 <= available <= 2*count, '
            'last_update <= now): PROVED to be what the watch handler _run_sync._monitor_data_watch installs (under contract: '
            'installs_valid_record; yaml.load is a dependency returning a mapping whose count is a non-negative integer); the '
            'other closure that writes state["monitors"], _appmonitors_watch, only removes records and is not under contract',
            'state["suspended"] is updated through an alias in the real code; the model updates a local copy '
            '(no clause of this check depends on the write-back)',
            'the history clause (created_total bounded by the rate budget over time) and the instance API quota '
            'are not stated; int() of a real is modelled as floor (equal to truncation for the non-negative values here)',
        ],
    },
    'C06': {
        'contract_modules': ['scheduler_core', 'c06_queue'],
        'functions': [S + 'utilization', S + 'Allocation.priv_utilization_queue'],
        'replay': 'c06.py',
        'extra': [('bounded:Allocation.utilization_queue',
                   bounded_replay('c06.py', 'C06', 'Allocation.utilization_queue', 3000, 60000))],
        'assumptions': [
            'decided for one allocation (Allocation.priv_utilization_queue): each instance exactly once, priority '
            'order (running before pending, then first come), priority 0 => infinite utilisation, rank rule '
            '(UNPLACED beyond max_utilization - 1, boosted when the utilisation before the instance is negative), '
            'and clause 5 in the statement\'s words (cumulative demand within the reservation => boosted rank)',
            'NOT proved: the merge over sub-allocations (Allocation.utilization_queue: heapq.merge of the '
            'children\'s queues, re-scoring against total_reserved), hence clauses 1/3/4 across allocations; '
            'BOUNDED stand-in: the clauses of the statement (each instance once, ranks non-decreasing, per-allocation '
            'priority order, priority 0 last within a rank, rank rule per own allocation) are evaluated on the merged '
            'queue of 3000 (quick) / 60000 (thorough) deterministic random allocation trees of depth <= 3; the '
            'utilisation values recomputed by the merge are not in the statement and are not checked; '
            'Cell.schedule_alloc consumes the queue under an assumed contract',
            'sorted(key=) is a dependency contract (a permutation of the input, non-decreasing in the key); '
            'instance names are atoms ordered by an arbitrary total order; equal global_order would make heapq '
            'compare Application objects (TypeError) - not reachable inside priv_utilization_queue',
            'real division by a symbolic positive divisor is an uninterpreted function with the sign law as an axiom; '
            'np.finfo(float).eps is some positive real; floats as reals (ties in utilisation not modelled)',
            'generator executed eagerly to the list of yielded values',
        ],
    },
    'C09': {
        'contract_modules': ['c09_master', 'c11_loader'],
        'replay': 'c09.py',
        'extra': [('bounded:master-histories', bounded_replay('c09.py', 'C09', 'Master/Loader histories vs /placement', 250, 12000))],
        'functions': ['treadmill.scheduler.master:Master._placement_data', 'treadmill.scheduler.master:Master.init_schedule',
                      'treadmill.scheduler.master:Master._unschedule_evicted', 'treadmill.scheduler.master:Master._save_placement',
                      'treadmill.scheduler.master:Master.reschedule',
                      'treadmill.scheduler.master:Master.remove_app',
                      'treadmill.scheduler.loader:Loader.restore_placement'],
        'assumptions': [
            'GHOST STORE: /placement behind the storage backend is the writable ZooKeeper store of engine_fs (zk_exists / '
            'zk_content per path); Backend.put / delete / ensure_exists / list / get_default / exists are dependency '
            'contracts (ZkBackend = zkutils.put / ensure_deleted / ensure_exists / get_children: one atomic operation each; '
            'placement entries have no children); paths are cp-chains - zknamespace.path.placement = make_path_f(PLACEMENT) is '
            'read off the class body of the real source, os.path.join onto a path is cp; axioms: cp injective, '
            '/placement/<x> is not /placement, /finished or /scheduled; a name is determined by its text (atom / name_str); '
            'a payload is an opaque token with projections any_get(token, key) == token of the stored value (equal values '
            '=> equal tokens), so "carries the identity and expiry the model holds" is equality of tokens',
            'THE CYCLE IS A SUMMARY HERE (assumed contract of Cell.schedule, listed as dependency): the returned list has one '
            '(name, server before, expiry before, server after, expiry after) record per instance of the cell, each once '
            '(the relation between the returned records and the before / after state of the listed instances is PROVED on the '
            'real Cell.schedule: ./check C01, obligation Cell.schedule#ensures[returns_before_after]; that the listed instances '
            '- Allocation.all_apps of every partition - are exactly the cell\'s instances, each once, is C06 clause 1 and '
            'stays assumed), member servers list exactly the instances placed on them and placed instances are on member servers '
            '(C01, proved by ./check C01), and an instance whose server and expiry are unchanged by the cycle keeps its '
            'identity (an identity changes only through removal and re-placement, which computes a new expiry from a later '
            'clock reading - not machine-checked)',
            'C09 is proved in inductive form: Master.reschedule requires pub_all (an entry exists exactly for the placed '
            'instances, under their server, for ALL server names) and content_all, and re-establishes both; '
            'Master.init_schedule establishes exactness and content for the servers of the model from ANY stored state. '
            'Events between cycles must preserve pub_all: Master.remove_app is under contract; Loader.remove_server and the '
            'run-time Loader.reload_server / restore_placement path are NOT proved to preserve it (known findings: entries '
            'left under a removed server; a reloaded server re-places its instances with a new expiry and the entries are '
            'not refreshed)',
            'Master._update_task (trace event files on the local disk) is assumed not to touch the store; Master._save_placement '
            '(compressed reference copy in the node /placement itself) is under contract: no /placement/<server>/<instance> entry '
            'changes; identity_count in the payload is not part of the statement',
            'BOUNDED stand-in (labelled bounded): replay/c09.py drives the real Master / Loader over an in-memory backend '
            'through random ZooKeeper-level histories with crash injection and fail-over and compares the whole /placement '
            'tree (existence and content) with the model after every cycle; server-record deletion and run-time server '
            'reload (the two listed known findings) are left out of the random histories',
        ],
    },
    'C10': {
        'contract_modules': ['c09_master', 'c11_loader'],
        'functions': ['treadmill.scheduler.master:Master.init_schedule',
                      'treadmill.scheduler.master:Master._unschedule_evicted', 'treadmill.scheduler.master:Master._save_placement',
                      'treadmill.scheduler.master:Master.reschedule',
                      'treadmill.scheduler.master:Master.remove_app', 'treadmill.scheduler.loader:Loader.restore_placement'],
        'replay': 'c09.py',
        'extra': [('bounded:master-crash-histories', bounded_replay('c09.py', 'C10', 'Master/Loader histories with crash points', 250, 12000))],
        'assumptions': [
            'CRASH POINTS: the store changes only inside Backend.put / delete / ensure_exists (one ZooKeeper operation each, '
            'dependency contracts). no_dup (no instance has entries under two servers) is a call-site clause in the state '
            'before EVERY such call of Master.reschedule and Master.init_schedule, a loop invariant of their loops and a '
            'postcondition; every state a crash can leave behind is one of those states',
            'reschedule starts from pub_all (C09\'s inductive invariant, which implies no_dup); init_schedule starts from ANY '
            'store without duplicates whose entries are under servers of the model (entries_known: Loader.restore_placements '
            'drops an instance found under two servers; entries under unknown servers are the listed C09 known finding) and '
            'ends with the placement equal to the model on member servers (the C09 clauses of init_schedule, discharged by '
            './check C09) - "a newly elected master started on that stored state again publishes a placement equal to its '
            'model"; load_model itself (Loader.restore_placements / restore_placement) is under contract in ./check C11',
            '"completes start-up" / "never fails its own integrity check" (Loader.check_placement_integrity, an assertion over '
            'the stored tree) is decided by the bounded stand-in only: replay/c09.py cuts every publication at a random '
            'write, checks the stored tree for duplicates, starts a new master on it and runs its integrity check',
            'the ghost-store, path and cycle-summary assumptions of C09 apply (same contract module)',
        ],
    },
    'C11': {
        'contract_modules': ['c11_loader'],
        'functions': ['treadmill.scheduler.loader:Loader.restore_placement', S + 'Server.restore', S + 'Server.put',
                      S + 'Server.remove_all', S + 'Server.check_app_lifetime', S + 'Node.increment_affinity',
                      S + 'Node.decrement_affinity', S + 'Bucket.adjust_capacity_up', S + 'Bucket.adjust_capacity_down'],
        'replay': 'c09.py',
        'extra': [('bounded:fail-over-histories', bounded_replay('c09.py', 'C11', 'Loader.load_model on stored states of random histories', 250, 12000))],
        'assumptions': [
            'decided per server (Loader.restore_placement, which Loader.restore_placements calls for every server of the '
            'model and Loader.reload_server calls at run time): (1) nothing is placed on the server that is not recorded '
            'under it; (2) an instance recorded under a server whose presence node is not newer than the entry (present, not '
            'restarted since) is put back by Server.restore with the RECORDED expiry - and Server.restore (proved contract of '
            'scheduler_core, re-verified here) succeeds exactly when the instance still fits the server statically '
            '(fits_static: partition label, traits, affinity room, capacity in every dimension - "still offering the capacity, '
            'partition and traits of what is recorded on it") and leaves the lease check out; (3) the recorded identity is '
            'forced (restore_identity); (4) a recorded instance that is not put back has its entry deleted, nothing is '
            'created, no surviving entry is rewritten, entries of other servers are untouched',
            'NOT machine-checked: the composition over servers in Loader.restore_placements (the loop that drops an instance '
            'restored under two servers) and the load sequence of Loader.load_model (servers, allocations, apps, identity '
            'groups before the restore); that identity groups are configured before the restore (force_set_identity asserts '
            'a group reference: precondition "an identity is recorded only for an instance of a group"); "fits at its turn" - '
            'capacity is consumed in listing order, so an instance can fail to fit because of instances restored before it',
            'store: the ghost store and Backend dependency contracts of C09 (c09_master), plus get_with_metadata (payload '
            'decoded to expires - 0 if absent - and identity, creation time zk_ctime read only) and "a missing node has no '
            'children"; Loader.remove_app is an assumed summary (the instance leaves the cell, nobody else changes)',
            'BOUNDED stand-in (labelled bounded): replay/c09.py restarts a new master on the stored state of random histories '
            '(also after injected crashes) and compares the model right after load_model with the entries recorded under '
            'healthy servers (server, identity, expiry) and checks that nothing unrecorded is placed',
        ],
    },
    'C12': {
        'contract_modules': ['c12_eventmgr'],
        'functions': ['treadmill.eventmgr:EventMgr._cache', 'treadmill.eventmgr:EventMgr._synchronize'],
        'replay': 'c12.py',
        'extra': [('bounded:sync-cases', bounded_replay('c12.py', 'C12', 'EventMgr._synchronize with the real fs.write_safe, observed at every rename', 600, 20000))],
        'assumptions': [
            'BOUNDED stand-in (labelled bounded, never counted as proved) for what the dependency contract of fs.write_safe '
            'assumes: replay/c12.py runs the real _synchronize / _cache / fs.write_safe on random cache directories and '
            'reads the source of every os.replace at the instant of the rename (a reader or a crash must see a complete '
            'manifest), including placement data with falsy values (identity 0, expires 0)',
            'ZooKeeper is a read-only store during one synchronisation: zk_has(path) / ZK_DATA[path] / zk_ctime(path); '
            'zkutils.get and get_with_metadata return the stored payload and raise NoNodeError exactly on absent nodes '
            '(dependency contracts); paths are built by treadmill.zknamespace.path.* (pure string builders: '
            'uninterpreted functions of their arguments); payloads are JSON objects modelled as maps of atoms',
            'file system dependency contract (pyvc/engine_fs.py): (directory, name) paths with kind, content token '
            'and creation time; glob(<dir>/*) lists the names present that do not start with a dot (fs_hidden); '
            'os.unlink / os.stat as documented there',
            'ATOMICITY IS ASSUMED, NOT PROVED: fs.write_safe (tempfile in the same directory + os.replace) is modelled '
            'as one atomic step - afterwards the file holds what the callback wrote, and if the callback raises nothing '
            'changes under the instance\'s name; the statement\'s last sentence (a reader or a crash never observes a '
            'partial manifest) therefore rests on that dependency contract; what IS proved is that the cache file is '
            'only ever written through write_safe (a direct open()/write would leave the modelled subset). '
            'yaml.dump is a function of the object (content token yaml_of)',
            'task id = app[app.index("#") + 1:] is kept symbolic (same term in code and contract); an empty '
            '/scheduled node (no manifest) makes the real code raise TypeError before touching the cache - allowed '
            'by the contract as an exceptional outcome that changes nothing under that name',
            'the cache directory holds only regular files; instance names are not hidden names; sequential (the '
            'ChildrenWatch callback is not re-entered); EventMgr.run / _cache_notify (ready marker) not under contract',
        ],
    },
    'C13': {
        'contract_modules': ['c13_appcfgmgr'],
        'functions': ['treadmill.appcfgmgr:AppCfgMgr._terminate', 'treadmill.appcfgmgr:AppCfgMgr._configure',
                      'treadmill.appcfgmgr:AppCfgMgr._on_created', 'treadmill.appcfgmgr:AppCfgMgr._on_deleted'],
        'replay': 'c13.py',
        'extra': [('bounded:manager-histories', bounded_replay('c13.py', 'C13', 'AppCfgMgr event histories incl. _synchronize on a real directory tree', 1500, 60000))],
        'assumptions': [
            'PROVED (for every file-system state): AppCfgMgr._terminate, _configure, _on_created, _on_deleted keep "a container '
            'directory is the target of at most one link of running/ and cleanup/" (one_link), move a terminated instance\'s '
            'link to cleanup and touch nothing else, leave a running instance alone on a repeated created event, do nothing '
            'while inactive; fs.replace / fs.symlink_safe / fs.rm_safe are the real code, executed over the ghost file system',
            'NOT under contract: AppCfgMgr._synchronize (three-way reconciliation over the listings of apps/ and cache/): '
            'BOUNDED stand-in only (labelled bounded, never counted as proved) - replay/c13.py drives the real manager through '
            'random histories of place / evict / finish / cleanup-done / manager restart / ready-file flips on a temporary '
            'treadmill root and checks O1..O5 of its docstring after every event; _first_sync enters the handler proofs as an '
            'assumed summary (keeps one_link)',
            'file-system dependency contract (pyvc/engine_fs.py): (directory, name) paths, symlink / readlink / unlink / '
            'rename(2) (os.replace: atomic, ENOENT when the source is missing) / tempfile.mktemp (some absent name); '
            'sys.version_info >= 3 (fs.replace takes the os.replace branch)',
            'dependency contracts (assumed): app_cfg.configure returns apps/<unique name of the event file> or None and '
            'creates no link in running/ or cleanup/; report_aborted, utils.touch, supervisor.control_svscan do not touch the '
            'two link directories; a created event is delivered for a new cache file whose unique name (inode, ctime) is not '
            'yet the target of any link (precondition of _on_created); container_of(instance) is the unique name of the '
            'current cache file (C15 decides the encoding)',
            'schedules: one handler at a time (the DirWatcher loop is sequential); the monitor\'s and the cleanup '
            'service\'s moves between two handler calls are covered by quantifying over every file-system state that '
            'satisfies one_link, interleaving inside a handler is not covered',
        ],
    },
    'C14': {
        'contract_modules': ['c14_vipfile', 'c14_rules_endpoints'],
        'functions': ['treadmill.vipfile:VipMgr._alloc', 'treadmill.vipfile:VipMgr.alloc', 'treadmill.vipfile:VipMgr.free',
                      'treadmill.vipfile:VipMgr.garbage_collect', 'treadmill.rulefile:RuleMgr.create_rule',
                      'treadmill.rulefile:RuleMgr.unlink_rule', 'treadmill.rulefile:RuleMgr.garbage_collect',
                      'treadmill.endpoints:EndpointsMgr.create_spec', 'treadmill.endpoints:EndpointsMgr.unlink_spec',
                      'treadmill.endpoints:EndpointsMgr.unlink_all'],
        'replay': 'c14.py',
        'extra': [('bounded:owner-sequences', bounded_replay('c14.py', 'C14', 'VipMgr/RuleMgr/EndpointsMgr operation sequences on real directories', 1500, 60000))],
        'assumptions': [
            'BOUNDED stand-in (labelled bounded): replay/c14.py drives the real managers through random operation sequences '
            '(including a /29 address pool driven to its end and two generations of one instance releasing their endpoint '
            'specs with unlink_all) against a reference owner map',
            'file-system dependency contract (pyvc/engine_fs.py): paths are (directory, name) pairs; symlink raises '
            'EEXIST and changes nothing iff the name exists; readlink/unlink/stat/listdir as documented there; one '
            'level of link following; no I/O error other than ENOENT/EEXIST/EINVAL',
            'sequential: readlink-then-unlink in free/unlink_* are two system calls; another owner acting between '
            'them (the `schedules` half of the quantifier) is not covered',
            'rule and spec file names are functions of their arguments (_filenameify / _namify assumed; injectivity is C15)',
            'managed directories contain only links (or nothing) and every link points into the owners directory, '
            'which differs from the managed directory (what the create operations establish)',
            'EndpointsMgr.unlink_all / endpoints.garbage_collect (glob), VipMgr.initialize/list and '
            'NetworkResourceService.on_create_request/on_delete_request/synchronize are not under contract',
        ],
    },
    'C16': {
        'contract_modules': ['c16_network'],
        'replay': 'c16.py',
        'extra': [('bounded:start-finish-sequences', bounded_replay('c16.py', 'C16', '_unshare_network/_cleanup_network sequences on real rule and endpoint directories', 400, 30000))],
        'functions': ['treadmill.runtime.linux._finish:_cleanup_ephemeral_ports',
                      'treadmill.runtime.linux._finish:_cleanup_network',
                      'treadmill.runtime.linux._run:_unshare_network'],
        'assumptions': [
            'TWO CONTRACTS AGAINST ONE SPECIFICATION: reg_rule(app, vip, ext, n) says which rule-file names are "the '
            'registrations of this manifest" (DNAT and SNAT per endpoint, DNAT per ephemeral tcp / udp port, one '
            'passthrough rule per resolved passthrough host). _unshare_network: every rule file it changes was free, is '
            'bound to this container afterwards and is a registration; on normal return every registration is bound to '
            'this container; an entry owned by somebody else makes it raise (then what was created so far is still only '
            'registrations). _cleanup_network / _cleanup_ephemeral_ports: every rule file that changes was bound to THIS '
            'container, is gone afterwards and is a registration (another container\'s entry is never removed); unless the '
            'network resource was never allocated or is already freed (then nothing changes: repeatable), no registration '
            'is bound to this container afterwards and the vring / infra ip-set entries of the manifest are gone. '
            '"As they were" for entries that were free before the start follows from the two contracts (DESIGN 0.70) - '
            'that composition is a two-line argument, not a machine-checked obligation',
            'the real RuleMgr.create_rule / unlink_rule are executed (inlined) over the ghost file system of engine_fs '
            '(symlink / readlink / unlink with errno outcomes); RuleMgr._filenameify is assumed to be a FUNCTION of the '
            'chain, the rule class and the fields of that class (rfile; that distinct rules get distinct names is C15 and '
            'is not needed for symmetry); firewall.DNATRule / SNATRule / PassThroughRule objects are built by their real '
            '__init__ (the three unrelated classes share one set of heap arrays, the class tag tells them apart)',
            'vip / external ip: the start uses app.network.vip / external_ip, the finish uses what the network service '
            'returns for the container (net_vip / net_ext of the unique name): the symmetry is for equal values; '
            'socket.gethostbyname is a FUNCTION of the host name - the FIXME in _cleanup_network says nothing guarantees '
            'that in reality (a passthrough host resolving differently at finish leaks its rule: not a code defect the '
            'contracts can see, listed here)',
            'ip sets live in the file-system ghost as pseudo directories (ipset_dir / ipset_entry: atoms of the set and entry '
            'texts; assumed different from the rules / owners / endpoints directories); iptables.add_ip_set / rm_ip_set are '
            'dependency contracts (ipset -exist add / del); entry texts are the same format expressions on both sides. '
            'Infra entries of endpoints of type infra are removed by the finish loop (rm_ip_set contract) but only the '
            'ephemeral-port and vring entries are stated as postconditions',
            'endpoint specs: EndpointsMgr.create_spec / unlink_all are dependency contracts here (nothing outside the '
            'endpoints directory changes; create_spec / unlink_spec are under contract in ./check C14; unlink_all is a glob '
            'over spec names and is not) - the spec half of the statement is NOT decided by this check',
            'the site firewall plugin (apply_exception_rules / cleanup_exception_rules), newnet.create_newnet, '
            'iptables.flush_cnt_conntrack_table and the network service client are assumed not to touch the registrations '
            'named here; BOUNDED stand-in (labelled bounded): replay/c16.py runs random interleavings of start / finish / '
            'repeated finish of up to three containers with the real RuleMgr and EndpointsMgr on temporary directories and a '
            'recording ip-set fake, and compares rules, endpoint specs (the half the proof does not decide) and ip sets with '
            'the state before the start; appcfg.app_unique_name is a function of the manifest; runtime.allocate_network_ports (distinct '
            'ports, disjoint ranges) is not under contract; interleavings of two containers are covered in the sense that '
            'every clause is proved for an arbitrary directory content at the start of each call',
        ],
    },
    'C17': {
        'contract_modules': ['c17_presence'],
        'functions': ['treadmill.services.presence_service:PresenceResourceService._safe_create',
                      'treadmill.services.presence_service:PresenceResourceService._safe_delete',
                      'treadmill.services.presence_service:PresenceResourceService.on_create_request',
                      'treadmill.services.presence_service:PresenceResourceService.on_delete_request'],
        'replay': 'c17.py',
        'extra': [('bounded:request-sequences-and-interleavings', bounded_replay('c17.py', 'C17', 'PresenceResourceService requests of two sessions; one create request with the other session acting between its ZooKeeper operations', 1500, 30000))],
        'assumptions': [
            'BOUNDED stand-in (labelled bounded): replay/c17.py (a) random request sequences of two sessions on a shared fake '
            'ZooKeeper, (b) EXHAUSTIVELY over a small space, one create request of session A while session B - holding the '
            'running node - removes it (clean-up or expiry) and registers the next container before the i-th / j-th ZooKeeper '
            'operation of A (all i <= j < 7): A must never set or delete a node owned, at that moment, by another session. '
            'This is the part of the schedules quantifier the request-granular proof does not reach',
            'every clause is proved for an arbitrary ZooKeeper store at the start of one request, so any interleaving of '
            'whole requests of two sessions (and expiry between requests) is covered; INSIDE a request the environment '
            'is modelled as: before every ZooKeeper call any node may go away (its owner deleted it, its session expired) '
            '- which reaches e.g. NodeExistsError followed by NoNodeError; a foreign node being CREATED or rewritten '
            'between the read and the write of one request is not modelled (ZooKeeper offers no compare-owner-and-delete; '
            'the real code has the same window); because going away cannot be told from a deletion in a two-state '
            'postcondition, deletions and updates are pinned by call-site clauses: they are reached only for a node that '
            'is not an existing foreign node',
            'ZooKeeper dependency contracts (assumed): zkutils.create fails with NodeExistsError iff the node exists and '
            'makes an ephemeral node owned by the creating session; get_with_metadata returns content and owner session '
            'or raises NoNodeError; update changes the content only; ensure_deleted removes the node (children of '
            'presence nodes do not exist); all leave every other path alone',
            '"it waits for the node to go away": _watch installs a DataWatch that re-queues the request and the request '
            'returns None - the waiting itself (liveness) is not stated; _watch and the inherited retry_request are '
            'assumed to have no effect on the store',
            'appcfg.app_name (instance name of a unique container name) and zknamespace.path.* are functions of their '
            'arguments; node payloads and ACLs are opaque tokens (equal values => equal tokens); the client session id '
            'is positive; PresenceResourceService.zkclient is the process-wide client',
            'the first sentence of the statement (ephemeral nodes of its own session) is a call-site clause at '
            'zkutils.create (ephemeral=True) plus the dependency contract; the second (never modify/delete a foreign '
            'node) is foreign_untouched on all four functions plus call-site clauses at update / ensure_deleted; the '
            'third (delete only what was registered for that container) is only_registered_for_this / others_kept',
        ],
    },
    'C18': {
        'contract_modules': ['c18_trace'],
        'replay': 'c18.py',
        'functions': ['treadmill.trace._zk:cleanup', 'treadmill.trace._zk:upload_batch', 'treadmill.trace.app.zk:cleanup_trace', 'treadmill.trace.app.zk:cleanup_finished',
                      'treadmill.trace._zk:download_batch', 'treadmill.trace.app.zk:cleanup_trace_history',
                      'treadmill.trace.app.zk:cleanup_finished_history',
                      'treadmill.trace.server.zk:cleanup_server_trace', 'treadmill.trace.server.zk:cleanup_server_trace_history'],
        'extra': [('bounded:trace-archiving-histories',
                   bounded_replay('c18.py', 'C18', 'cleanup_trace/cleanup_finished/_zk.cleanup histories', 150, 6000))],
        'assumptions': [
            'CRASH POINTS: the store changes only inside zkutils.create / zkutils.ensure_deleted (each one atomic ZooKeeper '
            'operation - dependency contracts). The safety clause of an archiving run is a call-site clause in the state '
            'before EVERY ensure_deleted of upload_batch (the node is held, with its row, by a live snapshot that is not '
            'the node itself), an invariant of the delete loop and of the batch loops, and a postcondition of the normal '
            'AND of the exceptional exit of upload_batch / cleanup_trace / cleanup_finished (a failing upload or delete: '
            'create and ensure_deleted may raise a KazooException and then change nothing). Every state a crash or a '
            'failed write can leave behind is one of those states. Sequential: no other writer between two calls',
            'ZooKeeper ghost store: zk_exists / zk_content per path (engine_fs), zk_mtime(path) read-only; paths are built '
            'with the uninterpreted child-path function cp(parent, name) ( \'/\'.join of znode names ); axioms: cp is '
            'injective (parent and name are functions of the path) and \'/trace/<shard>\' is not \'/trace.history\'; '
            'zknamespace.join_zookeeper_path and the make_path_f builders (path.trace_shard, path.trace_history, '
            'path.finished, path.finished_history - read off the class body of the real source on every run) are '
            'evaluated as cp chains; get_children lists exactly the existing children, each once; create(sequence=True) '
            'makes a NEW node next to the given path; ensure_deleted removes one node (event and finished nodes have no '
            'children; recursive deletion not modelled); zkutils.with_retry calls its function once',
            'snapshots: tempfile / sqlite3 / io.open / zlib are dependency contracts - the temporary file holds exactly '
            'the rows given to executemany (the SQL text is NOT interpreted: table name and column order are read off '
            'the source), f.read() is a token whose rows (path, data, name) are those rows, decompress(compress(x)) == x. '
            '"retrievable" is stated as: a live node under the history directory holds a row with the node path (and, for '
            'finished records, the decoded payload the record had); download_batch is under contract for its data flow (node '
            '-> decompress -> temporary file -> SELECT: it returns the name column of exactly the snapshot rows the statement '
            'built from `name` selects) but the SQL text (GLOB \'<name>,*\') is NOT interpreted: that an instance\'s events '
            'match the pattern is checked by the bounded stand-in, which opens every snapshot with sqlite and calls the real '
            'download_batch',
            'event names: event.split(\',\', 2) and float() are uninterpreted functions of the text (split_part, '
            'str_to_real) raising ValueError on malformed names (then nothing is written: proved); the lexicographic order '
            'of strings is an uninterpreted relation; list.sort() on tuples is a permutation (order not used by the property)',
            '"stay live": proved in the contrapositive - an event leaves the live trace only if its instance had no '
            '/scheduled node when the run started and its timestamp is older than now - expiry; a finished record only if '
            'its last-modified time is older; nothing else changes except new snapshot nodes (nothing_else / only_selected)',
            'pruning (_zk.cleanup; cleanup_trace_history / cleanup_finished_history are one-line callers): exactly the '
            'max_count greatest names survive unchanged; "newest" = greatest name (sequence numbers are zero padded - assumed)',
            'the server-trace twin (treadmill.trace.server.zk: cleanup_server_trace, cleanup_server_trace_history) is under '
            'contract for the same losslessness / crash-point clauses (it has no expiry: the oldest batch_size events are '
            'moved; heapq.merge is a dependency contract of which only the length is used - the clauses hold for whatever '
            'rows are handed to upload_batch); prune_trace_evictions / prune_trace_service_events (not named by the '
            'statement) are not under contract',
            'BOUNDED stand-in (labelled bounded, never counted as proved): replay/c18.py runs random histories of the real '
            'functions on an in-memory ZooKeeper with real sqlite snapshots, cutting each run at a random write (crash / '
            'failed write), and evaluates the statement on the stored tree',
        ],
    },
    'C19': {
        'contract_modules': ['c19_allocation_api'],
        'functions': ['treadmill.api.allocation:_check_limit', 'treadmill.api.allocation:_calc_free',
                      'treadmill.api.allocation:_calc_free_traits', 'treadmill.api.allocation:_check_capacity',
                      'treadmill.api.allocation:API._ReservationAPI.update',
                      'treadmill.api.allocation:API._ReservationAPI.create'],
        'replay': 'c19.py',
        'assumptions': [
            'admin (LDAP) layer returns schema-valid reservation and partition records; multi-valued LDAP '
            'attributes are sets (no trait listed twice in one reservation, no two limits for one trait)',
            'utils.cpu_units / utils.size_to_bytes return cpu_val / size_val of a schema-valid string '
            '(their own contracts are discharged under C01 units, assumed here)',
            'reservation update (closure API._ReservationAPI.update) is under contract: the directory write '
            '(AdminCellAlloc.update) is reached only in a state where fits_all holds for the request (call-site clause); '
            'reservation create likewise (AdminCellAlloc.create; the clause speaks about the request as it was checked, API '
            'plugins - assumed to touch nothing but the object they return - may add attributes afterwards)',
            'the directory content is read once per request (no concurrent writer between check and write)',
        ],
        'trusted': ['json-schema validation of requests (source of valid_cpu/valid_size preconditions)'],
    },
}
