"""Frontend: locate real Treadmill source by qualified name, re-read on every run.

Nothing is imported from /repo: the text of the file the interpreter would
import is parsed with `ast` and the function/class definitions are located by
qualified name (module:Class.method, module:func, module:func.<nested>).
"""
import ast
import hashlib
import os

from core import CheckerError

REPO = os.environ.get('VERIF_REPO', '/repo')
PYROOT = os.path.join(REPO, 'lib', 'python')


class Module:
    def __init__(self, name, path=None, text=None):
        self.name = name
        if text is None:
            if path is None:
                base = os.path.join(PYROOT, *name.split('.'))
                path = base + '.py'
                if not os.path.exists(path):
                    path = os.path.join(base, '__init__.py')
            self.path = path
            with open(path, encoding='utf-8') as f:
                text = f.read()
        else:
            self.path = path or '<spec>'
        self.text = text
        self.tree = ast.parse(text)
        self.lines = text.splitlines()
        self.defs = {}      # top-level name -> ast node
        self.imports = {}   # local name -> dotted module name or (module, attr)
        self.assigns = {}   # top-level simple assignments name -> expr node
        for node in self.tree.body:
            self._index(node)

    def _index(self, node):
        if isinstance(node, (ast.FunctionDef, ast.ClassDef)):
            self.defs[node.name] = node
        elif isinstance(node, ast.Import):
            for a in node.names:
                self.imports[a.asname or a.name.split('.')[0]] = (a.name if a.asname else a.name.split('.')[0])
        elif isinstance(node, ast.ImportFrom):
            if node.module == '__future__':
                return
            modname = node.module
            if node.level:
                # relative import: resolve against this module's package
                pkg = self.name.split('.')
                if not self.path.endswith('__init__.py'):
                    pkg = pkg[:-1]
                pkg = pkg[:len(pkg) - (node.level - 1)]
                modname = '.'.join(pkg + ([node.module] if node.module else []))
            for a in node.names:
                self.imports[a.asname or a.name] = (modname, a.name)
        elif isinstance(node, ast.Assign):
            for t in node.targets:
                if isinstance(t, ast.Name):
                    self.assigns[t.id] = node.value
        elif isinstance(node, (ast.If, ast.Try)):
            for sub in getattr(node, 'body', []):
                self._index(sub)

    def segment(self, node):
        return ast.get_source_segment(self.text, node) or ''


_modules = {}


def module(name):
    if name not in _modules:
        _modules[name] = Module(name)
    return _modules[name]


def register_module(name, mod):
    _modules[name] = mod


def module_exists(name):
    base = os.path.join(PYROOT, *name.split('.'))
    return os.path.exists(base + '.py') or os.path.exists(os.path.join(base, '__init__.py'))


def find_def(qual):
    """qual = 'pkg.mod:Class.method' or 'pkg.mod:func' or 'pkg.mod:func.nested'.
    Returns (Module, node, enclosing class node or None)."""
    modname, path = qual.split(':')
    mod = module(modname)
    parts = path.split('.')
    node = mod.defs.get(parts[0])
    cls = None
    if node is None:
        raise CheckerError('contract anchor missing: %s' % qual)
    for p in parts[1:]:
        if isinstance(node, ast.ClassDef):
            cls = node
        found = None
        for sub in ast.walk(node):
            if sub is node:
                continue
            if isinstance(sub, (ast.FunctionDef, ast.ClassDef)) and sub.name == p:
                found = sub
                break
        if found is None:
            raise CheckerError('contract anchor missing: %s' % qual)
        node = found
    return mod, node, cls


def sha_of(mod, node):
    return hashlib.sha256(mod.segment(node).encode()).hexdigest()[:16]


def class_bases(mod, cnode):
    out = []
    for b in cnode.bases:
        if isinstance(b, ast.Name) and b.id in mod.defs:
            out.append(b.id)
    return out


def class_mro(mod, cname):
    """Linear MRO by name for single inheritance chains in one module."""
    out = []
    cur = cname
    while cur is not None and cur in mod.defs and isinstance(mod.defs[cur], ast.ClassDef):
        out.append(cur)
        bases = class_bases(mod, mod.defs[cur])
        cur = bases[0] if bases else None
    return out


def class_slots(mod, cname):
    """__slots__ merged over the MRO (None if some class has no __slots__)."""
    slots = []
    for c in class_mro(mod, cname):
        cn = mod.defs[c]
        found = None
        for st in cn.body:
            if isinstance(st, ast.Assign) and any(isinstance(t, ast.Name) and t.id == '__slots__' for t in st.targets):
                found = [e.value for e in st.value.elts]
        if found is None:
            return None
        slots += found
    return slots


def find_method(mod, cname, mname, after=None):
    """Find method through MRO; `after` = start search after that class (super)."""
    mro = class_mro(mod, cname)
    if after is not None:
        mro = mro[mro.index(after) + 1:]
    for c in mro:
        for st in mod.defs[c].body:
            if isinstance(st, ast.FunctionDef) and st.name == mname:
                return c, st
    return None, None


def subclasses(mod, cname):
    out = [cname]
    changed = True
    while changed:
        changed = False
        for n, d in mod.defs.items():
            if isinstance(d, ast.ClassDef) and n not in out and any(b in out for b in class_bases(mod, d)):
                out.append(n)
                changed = True
    return out


def is_property(fnode):
    for d in fnode.decorator_list:
        if isinstance(d, ast.Name) and d.id == 'property':
            return True
    return False


def is_setter(fnode):
    for d in fnode.decorator_list:
        if isinstance(d, ast.Attribute) and d.attr == 'setter':
            return True
    return False


def is_static(fnode):
    for d in fnode.decorator_list:
        if isinstance(d, ast.Name) and d.id in ('staticmethod',):
            return True
    return False
