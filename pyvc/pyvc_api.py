"""Names available to sidecar contract files (`from pyvc_api import *`)."""
from contracts import REG

contract = REG.contract
invariant = REG.invariant
cls = REG.cls
record = REG.record
enum = REG.enum
spec = REG.spec
const = REG.const
ufunc = REG.ufunc
ghostvar = REG.ghostvar
fold = REG.fold
axiom = REG.axiom
site = REG.site
opaque = REG.opaque
extend = REG.extend

# names used inside @spec bodies: they are never executed by CPython at load
# time (the source is interpreted symbolically), so they need no definition.
__all__ = ['contract', 'invariant', 'cls', 'record', 'enum', 'spec', 'const', 'ufunc', 'ghostvar', 'fold', 'axiom', 'site', 'opaque', 'extend']
