"""Statement execution and loops."""
import ast
import z3

import ops
from ops import truthy, zand, zor, znot, asz, lift
from core import (CaughtExc, SVal, TupleVal, LocalDict, FuncVal, ClassVal, ModuleVal, ExcVal, KRef, KEnum, KName,
                  KInt, KReal, KBool, KStr, KOpt, KList, KDict, KSet, KCounter, KTuple, KExt, KVec,
                  CheckerError, fresh_name, fresh_val, I, B, R)
from engine_expr import is_exc, BINOPS
from contracts import clause

NEXT = ('next',)
BREAK = ('break',)
CONT = ('continue',)


def loops_in(fnode):
    """Loops of a function in source order (not descending into nested defs)."""
    out = []

    def walk(stmts):
        for s in stmts:
            if isinstance(s, (ast.FunctionDef, ast.ClassDef, ast.Lambda)):
                continue
            if isinstance(s, (ast.For, ast.While)):
                out.append(s)
            for f in ('body', 'orelse', 'finalbody'):
                walk(getattr(s, f, []) or [])
            for h in getattr(s, 'handlers', []) or []:
                walk(h.body)
    walk(fnode.body)
    return out


def assigned_names(stmts, indirect=None):
    """Names (re)bound by the statements; `indirect` collects names only reached through a
    subscript/attribute store or a method call (mutation of a local container value)."""
    names = set()
    if indirect is None:
        indirect = set()

    def tgt(t):
        if isinstance(t, ast.Name):
            names.add(t.id)
        elif isinstance(t, (ast.Tuple, ast.List)):
            for x in t.elts:
                tgt(x)
        elif isinstance(t, (ast.Subscript, ast.Attribute)):
            # container / LocalDict update writes back to the root name
            root = t
            while isinstance(root, (ast.Subscript, ast.Attribute)):
                root = root.value
            if isinstance(root, ast.Name):
                indirect.add(root.id)
        elif isinstance(t, ast.Starred):
            tgt(t.value)

    class V(ast.NodeVisitor):
        def visit_FunctionDef(self, n):
            names.add(n.name)

        def visit_Lambda(self, n):
            pass

        def visit_Yield(self, n):
            names.add('_yielded')
            self.generic_visit(n)

        def visit_Assign(self, n):
            for t in n.targets:
                tgt(t)
            self.generic_visit(n)

        def visit_AugAssign(self, n):
            tgt(n.target)
            self.generic_visit(n)

        def visit_For(self, n):
            tgt(n.target)
            self.generic_visit(n)

        def visit_Delete(self, n):
            for t in n.targets:
                tgt(t)

        def visit_With(self, n):
            for it in n.items:
                if it.optional_vars is not None:
                    tgt(it.optional_vars)
            self.generic_visit(n)

        def visit_ExceptHandler(self, n):
            if n.name:
                names.add(n.name)
            self.generic_visit(n)

        def visit_Call(self, n):
            # mutator method on a local container: x.append(...)
            if isinstance(n.func, ast.Attribute):
                root = n.func.value
                while isinstance(root, (ast.Subscript, ast.Attribute)):
                    root = root.value
                if isinstance(root, ast.Name):
                    indirect.add(root.id)
            self.generic_visit(n)

    v = V()
    for s in stmts:
        v.visit(s)
    return names


def same_value(a, b):
    if a is b:
        return True
    if isinstance(a, SVal) and isinstance(b, SVal):
        return a.kind == b.kind and all(x.eq(y) for x, y in zip(a.t, b.t))
    if isinstance(a, LocalDict) and isinstance(b, LocalDict):
        return set(a.d) == set(b.d) and all(same_value(a.d[k], b.d[k]) for k in a.d)
    if isinstance(a, TupleVal) and isinstance(b, TupleVal):
        return len(a.items) == len(b.items) and all(same_value(x, y) for x, y in zip(a.items, b.items))
    try:
        return bool(a == b)
    except Exception:    # noqa
        return False


class StmtMixin:

    def ex(self, stmts, st, fr):
        """Execute a block: -> list of (st, outcome)."""
        outs = [(st, NEXT)]
        for s in stmts:
            nxt = []
            for cur, oc in outs:
                if oc is not NEXT:
                    nxt.append((cur, oc))
                    continue
                nxt += self.ex1(s, cur, fr)
            outs = nxt
            if not outs:
                break
        return outs

    def ex1(self, s, st, fr):
        m = getattr(self, 'ex_' + type(s).__name__, None)
        if m is None:
            raise CheckerError('unsupported statement %s in %s' % (type(s).__name__, fr.qual))
        return m(s, st, fr)

    def exc_out(self, st, v):
        return (st, ('raise', v))

    # ---------------------------------------------------------------- simple
    def ex_Pass(self, s, st, fr):
        return [(st, NEXT)]

    def ex_Break(self, s, st, fr):
        return [(st, BREAK)]

    def ex_Continue(self, s, st, fr):
        return [(st, CONT)]

    def ex_Global(self, s, st, fr):
        raise CheckerError('global statement')

    def ex_Import(self, s, st, fr):
        return [(st, NEXT)]

    ex_ImportFrom = ex_Import

    def ex_Expr(self, s, st, fr):
        if isinstance(s.value, ast.Constant):
            return [(st, NEXT)]       # docstring (dropped by extraction)
        if isinstance(s.value, ast.Yield):
            return self.do_yield(s, st, fr, s.value.value)
        if self.is_log_call(s.value):
            self.stats['dropped'].add('logging call')
            return [(st, NEXT)]
        outs = []
        for s2, v in self.ev(s.value, st, fr):
            outs.append(self.exc_out(s2, v) if is_exc(v) else (s2, NEXT))
        return outs

    def do_yield(self, s, st, fr, value_expr):
        outs = []
        for s2, v in self.ev(value_expr, st, fr):
            if is_exc(v):
                outs.append(self.exc_out(s2, v))
                continue
            lst = s2.env.get('_yielded')
            if lst is None:
                raise CheckerError('yield in %s: declare the element kind as types["_yielded"]' % fr.qual)
            if isinstance(v, TupleVal):
                v = self.coerce_to(s2, v, lst.kind.elem)
            s2.env['_yielded'] = ops.list_append(lst, self.coerce_to(s2, v, lst.kind.elem))
            outs.append((s2, NEXT))
        return outs

    def is_log_call(self, e):
        if isinstance(e, ast.Call) and isinstance(e.func, ast.Attribute):
            b = e.func.value
            if isinstance(b, ast.Name) and b.id in ('_LOGGER', 'log', 'logging'):
                return True
        return False

    def ex_Return(self, s, st, fr):
        if s.value is None:
            return [(st, ('return', None))]
        outs = []
        for s2, v in self.ev(s.value, st, fr):
            outs.append(self.exc_out(s2, v) if is_exc(v) else (s2, ('return', v)))
        return outs

    def ex_Raise(self, s, st, fr):
        if s.exc is None:
            cur = st.env.get('$handling')
            if cur is None:
                raise CheckerError('bare raise outside handler')
            return [(st, ('raise', cur))]
        e = s.exc
        # raise X(...) / raise X
        if isinstance(e, ast.Call):
            name = self.exc_name(e.func, st, fr)
            outs = []
            for s2, vals in self.seq(list(e.args), st, fr):
                outs.append(self.exc_out(s2, vals) if is_exc(vals) else (s2, ('raise', ExcVal(name, args=tuple(vals)))))
            return outs
        if isinstance(e, ast.Name) and isinstance(st.env.get(e.id), CaughtExc):
            return [(st, ('raise', st.env[e.id].exc))]
        return [(st, ('raise', ExcVal(self.exc_name(e, st, fr))))]

    def exc_name(self, e, st, fr):
        if isinstance(e, ast.Name):
            if e.id in st.env and isinstance(st.env[e.id], CaughtExc):
                return st.env[e.id].exc.etype
            return e.id
        if isinstance(e, ast.Attribute):
            return e.attr
        raise CheckerError('exception expression')

    def ex_Assert(self, s, st, fr):
        outs = []
        for s2, v in self.ev(s.test, st, fr):
            if is_exc(v):
                outs.append(self.exc_out(s2, v))
                continue
            t = truthy(v)
            n = fr.call_counter
            key = '%s#assert[%s]' % (fr.prefix, self.assert_ordinal(s, fr))
            self.oblige(s2, key, t)
            s2.assume(asz(t))
            outs.append((s2, NEXT))
        return outs

    def assert_ordinal(self, s, fr):
        fn = getattr(fr, 'fnode', None)
        if fn is None:
            return '?'
        k = 0
        for n in ast.walk(fn):
            if isinstance(n, ast.Assert):
                if n is s:
                    return k
                k += 1
        return '?'

    def ex_FunctionDef(self, s, st, fr):
        clo = dict(fr.closure)
        f = FuncVal('repo', qual='%s.%s' % (fr.qual, s.name), node=s, module=fr.module, closure=clo)
        f.cls = fr.cls
        f.py = 'nested'
        st.env[s.name] = f
        # closure sees later rebinding of enclosing locals: capture env by reference of this state at call time
        return [(st, NEXT)]

    def ex_Delete(self, s, st, fr):
        outs = [(st, NEXT)]
        for t in s.targets:
            nxt = []
            for cur, oc in outs:
                if oc is not NEXT:
                    nxt.append((cur, oc))
                    continue
                if isinstance(t, ast.Name):
                    cur.env.pop(t.id, None)
                    nxt.append((cur, NEXT))
                elif isinstance(t, ast.Subscript):
                    for s2, vals in self.seq([t.value, t.slice], cur, fr):
                        if is_exc(vals):
                            nxt.append(self.exc_out(s2, vals))
                            continue
                        base, idx = vals
                        k = ops.kind_of(base)
                        if isinstance(base, LocalDict):
                            if idx in base.d:
                                del base.d[idx]
                                nxt.append((s2, NEXT))
                            else:
                                nxt.append(self.exc_out(s2, ExcVal('KeyError')))
                        elif isinstance(k, KDict):
                            ok = ops.dict_has(base, idx)
                            tt, ff = self.fork(s2, ok)
                            if tt is not None:
                                newd = ops.dict_del(base, idx)
                                self.fold_update(tt, fr, base, newd, idx, None)
                                nxt += self.assign(t.value, newd, tt, fr)
                            if ff is not None:
                                nxt.append(self.exc_out(ff, ExcVal('KeyError')))
                        else:
                            raise CheckerError('del on %r' % (k,))
                else:
                    raise CheckerError('del target')
            outs = nxt
        return outs

    # ---------------------------------------------------------------- assignment
    def ex_Assign(self, s, st, fr):
        outs = []
        hint = None
        if len(s.targets) == 1 and isinstance(s.targets[0], ast.Name):
            hint = self.local_kind(fr, s.targets[0].id)
        for s2, v in self.ev_hint(s.value, st, fr, hint):
            if is_exc(v):
                outs.append(self.exc_out(s2, v))
                continue
            cur = [(s2, NEXT)]
            for t in s.targets:
                nxt = []
                for s3, oc in cur:
                    if oc is not NEXT:
                        nxt.append((s3, oc))
                    else:
                        nxt += self.assign(t, v, s3, fr)
                cur = nxt
            outs += cur
        return outs

    def ex_AnnAssign(self, s, st, fr):
        if s.value is None:
            return [(st, NEXT)]
        return self.ex_Assign(ast.Assign(targets=[s.target], value=s.value), st, fr)

    def local_kind(self, fr, name):
        c = fr.contract
        if c is not None and name in c.types and name not in ('return',):
            return self.reg.kind(c.types[name])
        return None

    def ev_hint(self, e, st, fr, hint):
        """Evaluate, giving empty-container constructors a declared kind."""
        if hint is not None and self.is_empty_ctor(e):
            if isinstance(hint, (KList, KDict, KSet, KCounter)):
                e0 = ops.empty_of(hint)
                if isinstance(hint, KDict):
                    self.fold_empty(st, e0)
                return [(st, e0)]
        outs = self.ev(e, st, fr)
        if hint is not None:
            res = []
            for s, v in outs:
                if not is_exc(v) and isinstance(v, (TupleVal, LocalDict)):
                    v = self.coerce_to(s, v, hint)
                res.append((s, v))
            return res
        return outs

    def is_empty_ctor(self, e):
        if isinstance(e, (ast.List, ast.Tuple)) and not e.elts:
            return True
        if isinstance(e, ast.Dict) and not e.keys:
            return True
        if isinstance(e, ast.Call) and not e.args and not e.keywords:
            f = e.func
            if isinstance(f, ast.Name) and f.id in ('dict', 'list', 'set'):
                return True
            if isinstance(f, ast.Attribute) and f.attr in ('Counter', 'OrderedDict'):
                return True
        return False

    def assign(self, t, v, st, fr):
        """Assign value to target; -> list of (st, outcome)."""
        if isinstance(t, ast.Name):
            hint = self.local_kind(fr, t.id)
            if hint is not None and not (isinstance(v, SVal) and v.kind == hint):
                try:
                    v = self.coerce_to(st, v, hint)
                except CheckerError:
                    pass
            st.env[t.id] = v
            return [(st, NEXT)]
        if isinstance(t, (ast.Tuple, ast.List)):
            if isinstance(v, SVal) and isinstance(v.kind, KList):
                # unpacking a list of symbolic length: ValueError unless it has exactly as many elements as targets
                outs = []
                tt, ff = self.fork(st, v.t[0] == len(t.elts))
                if ff is not None:
                    outs.append(self.exc_out(ff, ExcVal('ValueError')))
                if tt is not None:
                    outs += self.assign(t, TupleVal([ops.list_get(v, z3.IntVal(i_)) for i_ in range(len(t.elts))]), tt, fr)
                return outs
            items = ops.tuple_items(v)
            if len(items) != len(t.elts):
                raise CheckerError('unpack arity in %s' % fr.qual)
            outs = [(st, NEXT)]
            for sub, item in zip(t.elts, items):
                nxt = []
                for s2, oc in outs:
                    nxt += self.assign(sub, item, s2, fr) if oc is NEXT else [(s2, oc)]
                outs = nxt
            return outs
        if isinstance(t, ast.Attribute):
            outs = []
            for s2, base in self.ev(t.value, st, fr):
                if is_exc(base):
                    outs.append(self.exc_out(s2, base))
                    continue
                outs += self.setattr(s2, fr, base, t.attr, v)
            return outs
        if isinstance(t, ast.Subscript):
            outs = []
            for s2, vals in self.seq([t.value, t.slice], st, fr):
                if is_exc(vals):
                    outs.append(self.exc_out(s2, vals))
                    continue
                base, idx = vals
                outs += self.setitem(s2, fr, t.value, base, idx, v)
            return outs
        raise CheckerError('assignment target %s' % type(t).__name__)

    def setattr(self, st, fr, base, attr, v):
        if isinstance(base, SVal) and isinstance(base.kind, KRef):
            cname = base.kind.cls
            if self.has_field(cname, attr):
                ok = base.z != 0
                if getattr(base.kind, 'nullable', False):
                    tt, ff = self.fork(st, ok)
                    outs = []
                    if tt is not None:
                        self.write_field(tt, base.z, cname, attr, v)
                        outs.append((tt, NEXT))
                    if ff is not None:
                        outs.append(self.exc_out(ff, ExcVal('AttributeError')))
                    return outs
                self.write_field(st, base.z, cname, attr, v)
                return [(st, NEXT)]
            # property setter
            import frontend
            mod = self.class_module(cname)
            if mod is not None:
                for c in self.mro(cname):
                    for stn in mod.defs[c].body:
                        if isinstance(stn, ast.FunctionDef) and stn.name == attr and frontend.is_setter(stn):
                            f = FuncVal('repo', qual='%s:%s.%s.setter' % (mod.name, c, attr), node=stn, module=mod,
                                        selfv=base, cls=c)
                            outs = []
                            for s2, r in self.call_value(st, fr, f, [v], {}):
                                outs.append(self.exc_out(s2, r) if is_exc(r) else (s2, NEXT))
                            return outs
            raise CheckerError('unknown field %s.%s (write) in %s' % (cname, attr, fr.qual))
        if isinstance(base, FuncVal):
            return [(st, NEXT)]     # function attributes (auth_resource): dropped
        raise CheckerError('attribute store on %r' % (base,))

    def setitem(self, st, fr, base_expr, base, idx, v):
        if isinstance(base, LocalDict):
            if isinstance(idx, SVal):
                raise CheckerError('symbolic key store into literal dict in %s (declare its kind)' % fr.qual)
            base.d[idx] = v
            return [(st, NEXT)]
        k = ops.kind_of(base)
        if isinstance(k, KOpt) and isinstance(k.inner, KDict):
            # d[k] = v on an optional dict: None does not support item assignment
            tt, ff = self.fork(st, z3.Not(base.t[0]))
            outs = []
            if ff is not None:
                outs.append(self.exc_out(ff, ExcVal('TypeError')))
            if tt is not None:
                inner = SVal(k.inner, base.t[1:])
                v2 = self.coerce_to(tt, v, k.inner.val)
                new = ops.dict_set(inner, idx, v2)
                self.fold_update(tt, fr, inner, new, idx, v2)
                outs += self.assign(base_expr, SVal(k, [z3.BoolVal(False)] + list(new.t)), tt, fr)
            return outs
        if isinstance(k, KDict):
            v2 = self.coerce_to(st, v, k.val)
            new = ops.dict_set(base, idx, v2)
            self.fold_update(st, fr, base, new, idx, v2)
            return self.assign(base_expr, new, st, fr)
        if isinstance(k, KCounter):
            kt = ops.key_term(idx, k.key)
            return self.assign(base_expr, SVal(k, [z3.Store(base.t[0], kt, lift(v, KInt).z)]), st, fr)
        if isinstance(k, KList):
            i = lift(idx, KInt).z
            if isinstance(idx, int) and idx < 0:
                i = base.t[0] + idx
            ok = z3.And(i >= 0, i < base.t[0])
            tt, ff = self.fork(st, ok)
            outs = []
            if tt is not None:
                outs += self.assign(base_expr, ops.list_set(base, i, self.coerce_to(tt, v, k.elem)), tt, fr)
            if ff is not None:
                outs.append(self.exc_out(ff, ExcVal('IndexError')))
            return outs
        if isinstance(k, KRef):
            sc = self.schema(k.cls)
            if sc.record and isinstance(idx, str):
                self.write_field(st, base.z, k.cls, idx, v)
                if ('has_' + idx) in sc.fields:
                    self.write_field(st, base.z, k.cls, 'has_' + idx, True)
                return [(st, NEXT)]
        raise CheckerError('subscript store on %r in %s' % (k, fr.qual))

    def ex_AugAssign(self, s, st, fr):
        op = BINOPS.get(type(s.op))
        t = s.target
        load = self.as_load(t)
        outs = []
        for s2, vals in self.seq([load, s.value], st, fr):
            if is_exc(vals):
                outs.append(self.exc_out(s2, vals))
                continue
            for s3, r in self.binop(s2, fr, op, vals[0], vals[1]):
                if is_exc(r):
                    outs.append(self.exc_out(s3, r))
                else:
                    outs += self.assign(t, r, s3, fr)
        return outs

    def as_load(self, t):
        import copy
        t2 = copy.copy(t)
        t2.ctx = ast.Load()
        return t2

    # ---------------------------------------------------------------- control
    def ex_If(self, s, st, fr):
        outs = []
        for s2, c in self.ev(s.test, st, fr):
            if is_exc(c):
                outs.append(self.exc_out(s2, c))
                continue
            tt, ff = self.fork(s2, truthy(c))
            if tt is not None:
                outs += self.ex(s.body, tt, fr)
            if ff is not None:
                outs += self.ex(s.orelse, ff, fr)
        return outs

    def ex_With(self, s, st, fr):
        return self.with_items(s, list(s.items), st, fr)

    def with_items(self, s, items, st, fr):
        # transparent context managers (lc.LogContext), open(..., 'w') of the file-system model, and objects of classes
        # declared ctx=True (enter returns the object itself, exit has no modelled effect: close / commit)
        if not items:
            return self.ex(s.body, st, fr)
        it = items[0]
        ce = it.context_expr
        name = ast.unparse(ce.func) if isinstance(ce, ast.Call) else ast.unparse(ce)
        if name == 'open' and len(ce.args) == 2 and isinstance(ce.args[1], ast.Constant) and ce.args[1].value == 'w':
            pv = self.ev1(ce.args[0], st, fr)
            self.open_for_write(st, pv)
            return self.with_items(s, items[1:], st, fr)
        if name in self.TRANSPARENT_WITH:
            self.stats['dropped'].add('with %s' % name)
            if it.optional_vars is not None and isinstance(it.optional_vars, ast.Name):
                st.env[it.optional_vars.id] = None
            return self.with_items(s, items[1:], st, fr)
        outs = []
        for s2, v in self.ev(ce, st, fr):
            if is_exc(v):
                outs.append(self.exc_out(s2, v))
                continue
            sc = self.reg.classes.get(v.kind.cls) if isinstance(v, SVal) and isinstance(v.kind, KRef) else None
            if sc is None or not getattr(sc, 'ctx', False):
                raise CheckerError('unsupported context manager %s in %s' % (name, fr.qual))
            self.stats['dropped'].add('with <%s object> (enter returns the object, exit not modelled)' % v.kind.cls)
            if it.optional_vars is not None:
                if not isinstance(it.optional_vars, ast.Name):
                    raise CheckerError('with ... as <pattern>')
                s2.env[it.optional_vars.id] = v
            outs += self.with_items(s, items[1:], s2, fr)
        return outs

    TRANSPARENT_WITH = {'lc.LogContext'}

    def ex_Try(self, s, st, fr):
        outs = []
        for s2, oc in self.ex(s.body, st, fr):
            if oc[0] == 'raise':
                exc = oc[1]
                handled = False
                for h in s.handlers:
                    if self.handler_matches(h, exc, fr):
                        handled = True
                        if h.name:
                            s2.env[h.name] = CaughtExc(exc)
                        prev = s2.env.get('$handling')
                        s2.env['$handling'] = exc
                        for s3, oc3 in self.ex(h.body, s2, fr):
                            s3.env['$handling'] = prev
                            outs.append((s3, oc3))
                        break
                if not handled:
                    outs.append((s2, oc))
            elif oc is NEXT:
                outs += self.ex(s.orelse, s2, fr)
            else:
                outs.append((s2, oc))
        if s.finalbody:
            res = []
            for s2, oc in outs:
                for s3, oc3 in self.ex(s.finalbody, s2, fr):
                    res.append((s3, oc if oc3 is NEXT else oc3))
            outs = res
        return outs

    EXC_PARENTS = {'KeyError': 'LookupError', 'IndexError': 'LookupError', 'LookupError': 'Exception',
                   'ValueError': 'Exception', 'TypeError': 'Exception', 'OSError': 'Exception',
                   'IOError': 'OSError', 'AttributeError': 'Exception', 'AssertionError': 'Exception',
                   'ZeroDivisionError': 'ArithmeticError', 'ArithmeticError': 'Exception',
                   'StopIteration': 'Exception', 'RuntimeError': 'Exception',
                   'FileNotFoundError': 'OSError', 'FileExistsError': 'OSError'}

    def exc_isa(self, etype, name):
        cur = etype
        seen = 0
        while cur is not None and seen < 10:
            if cur == name:
                return True
            cur = self.EXC_PARENTS.get(cur) or self.reg.consts.get('exc_parent:' + cur) or ('Exception' if cur != 'Exception' and cur != 'BaseException' else None)
            seen += 1
        return False

    def handler_matches(self, h, exc, fr):
        if h.type is None:
            return True
        types = h.type.elts if isinstance(h.type, ast.Tuple) else [h.type]
        for t in types:
            name = t.id if isinstance(t, ast.Name) else t.attr
            if self.exc_isa(exc.etype, name):
                return True
        return False

    # ---------------------------------------------------------------- loops
    def loop_spec(self, s, fr):
        fn = getattr(fr, 'fnode', None)
        if fn is None:
            return None, None
        ls = loops_in(fn)
        for i, l in enumerate(ls):
            if l is s:
                inv = self.reg.invariants.get((fr.contract_qual, i))
                return i, inv
        return None, None

    def loop_sig(self, s):
        if isinstance(s, ast.For):
            return 'for %s in %s' % (ast.unparse(s.target), ast.unparse(s.iter))
        return 'while %s' % ast.unparse(s.test)

    def ex_For(self, s, st, fr):
        outs = []
        for s2, it in self.ev(s.iter, st, fr):
            if is_exc(it):
                outs.append(self.exc_out(s2, it))
                continue
            if isinstance(it, SVal) and isinstance(it.kind, KOpt):
                # iterating an optional: None is a TypeError, otherwise the value
                tt, ff = self.fork(s2, z3.Not(it.t[0]))
                if ff is not None:
                    outs.append(self.exc_out(ff, ExcVal('TypeError')))
                if tt is not None:
                    outs += self.for_over(s, tt, fr, SVal(it.kind.inner, it.t[1:]))
                continue
            outs += self.for_over(s, s2, fr, it)
        return outs

    def for_over(self, s, st, fr, it):
        # concrete iterable: unroll
        tagged = isinstance(it, tuple) and it and isinstance(it[0], str) and it[0] in ('range', 'view', 'viewsnap', 'zip', 'enumerate')
        if isinstance(it, (TupleVal, list)) or (isinstance(it, tuple) and not tagged):
            items = list(it.items) if isinstance(it, TupleVal) else list(it)
            return self.unroll(s, st, fr, items)
        if isinstance(it, LocalDict):
            return self.unroll(s, st, fr, list(it.d.keys()))
        if isinstance(it, range):
            return self.unroll(s, st, fr, list(it))
        poskeys = None
        if isinstance(ops.kind_of(it), (KDict, KSet)):
            it = self.snapshot_keys(st, it)
        elif isinstance(it, tuple) and it and it[0] == 'view':
            # iterate a dict view through one snapshot of its keys (exposes _pos(key) to invariants)
            _, mode, d = it
            poskeys = self.snapshot_keys(st, d)
            it = ('viewsnap', mode, d, poskeys)
        seqv = self.as_sequence(st, fr, it)
        idx, inv = self.loop_spec(s, fr)
        if inv is None:
            raise CheckerError('loop without invariant: %s loop[%s] (%s)' % (fr.qual, idx, self.loop_sig(s)))
        if inv.sig != self.loop_sig(s):
            # the loop head changed: the invariant is still applied by ordinal (a failing VC is then
            # reported against the property); the mismatch is recorded in the evidence
            self.stats['dropped'].add('loop signature changed: %s loop[%s]: %r != %r' % (fr.qual, idx, inv.sig, self.loop_sig(s)))
        return self.loop_vc(s, st, fr, idx, inv, seqv, it if isinstance(ops.kind_of(it), KList) else None, poskeys)

    def unroll(self, s, st, fr, items):
        outs = []
        cur = [st]
        for item in items:
            nxt = []
            for c in cur:
                for s2, oc in self.assign(s.target, item, c, fr):
                    if oc is not NEXT:
                        outs.append((s2, oc))
                        continue
                    for s3, oc3 in self.ex(s.body, s2, fr):
                        if oc3 is NEXT or oc3 is CONT:
                            nxt.append(s3)
                        elif oc3 is BREAK:
                            outs.append((s3, NEXT))
                        else:
                            outs.append((s3, oc3))
            cur = nxt
        for c in cur:
            outs += self.ex(s.orelse, c, fr)
        return outs

    def havoc_for_loop(self, s, st, fr, body_stmts, extra_names=(), bind=None):
        """Havoc everything the loop body may modify; found by a dry run."""
        indirect = set()
        names = assigned_names(body_stmts, indirect) | set(extra_names)
        # dry run to find modified heap keys
        self.dry += 1
        try:
            probe = st.copy()
            before = dict(probe.heap)
            changed = set()
            starts = [probe]
            if bind is not None:
                starts = [s2 for s2, oc in bind(probe) if oc is NEXT]
            sorts = {}
            for s2, oc in [x for p0 in starts for x in self.ex(body_stmts, p0, fr)]:
                for k, arr in s2.heap.items():
                    if k not in before or not before[k].eq(arr):
                        changed.add(k)
                        sorts[k] = arr.sort().range()
                # locals changed through subscript/attribute stores or mutator calls (found dynamically)
                for n in indirect:
                    if n in st.env and n in s2.env and not same_value(st.env[n], s2.env[n]):
                        names.add(n)
        finally:
            self.dry -= 1
            del self.ax_buffer[:]
        for key in changed:
            cur = self.H.get(st.heap, key, sorts.get(key))
            new = z3.Const(fresh_name('Hl_%s_%d' % (key[0].replace('.', '_').replace('$', ''), key[1])), cur.sort())
            if key[0] == '$alive':
                r = z3.Int(fresh_name('r'))   # allocation only grows
                st.assume(z3.ForAll([r], z3.Implies(z3.Select(cur, r), z3.Select(new, r)), patterns=[z3.Select(cur, r)]))
            if key[0] == '$clock':
                st.assume(z3.Select(new, 0) >= z3.Select(cur, 0))    # the clock only advances
            st.heap[key] = new
        for n in names:
            if n in st.env:
                v = st.env[n]
                st.env[n] = self.havoc_value(st, v, n)
        return changed, names

    def havoc_value(self, st, v, n):
        if isinstance(v, SVal):
            nv = fresh_val(v.kind, 'l_' + n)
            self.tf_assume(st, self.type_facts(nv, v.kind, st))
            return nv
        if isinstance(v, LocalDict):
            return LocalDict({k: self.havoc_value(st, x, '%s_%s' % (n, k)) for k, x in v.d.items()})
        if isinstance(v, TupleVal):
            return TupleVal([self.havoc_value(st, x, n) for x in v.items])
        if isinstance(v, bool):
            nv = fresh_val(KBool, 'l_' + n)
            return nv
        if isinstance(v, int):
            return fresh_val(KInt, 'l_' + n)
        if isinstance(v, float):
            return fresh_val(KReal, 'l_' + n)
        if v is None:
            raise CheckerError('loop-modified local %s is None at loop entry: declare its kind in the contract types' % n)
        if isinstance(v, str):
            return fresh_val(KStr, 'l_' + n)
        return v

    def inv_frame(self, fr, st_entry, extra):
        """Spec frame for evaluating loop invariants."""
        f2 = self.Frame(fr.module, fr.qual, fr.cls, spec=True)
        f2.closure = fr.closure
        f2.old = fr.old
        f2.loop_old = (dict(st_entry.heap), dict(st_entry.env))
        f2.bound = dict(fr.bound)
        f2.bound.update(extra)
        f2.contract = fr.contract
        return f2

    def check_inv(self, st, fr, inv, idx, phase, st_entry, extra):
        f2 = self.inv_frame(fr, st_entry, extra)
        for j, text, tags in self.clauses(inv.inv):
            v = self.ev1(self.parse_spec(text), st, f2)
            self.oblige(st, '%s#loop[%d].%s[%s]' % (fr.prefix, idx, phase, j), truthy(v), {'text': text, 'tags': tags})

    def assume_inv(self, st, fr, inv, idx, st_entry, extra):
        f2 = self.inv_frame(fr, st_entry, extra)
        for j, text, _t in self.clauses(inv.inv):
            v = self.ev1(self.parse_spec(text), st, f2)
            st.assume(asz(truthy(v)))

    def loop_vc(self, s, st, fr, idx, inv, seqv, seqval=None, poskeys=None):
        n, get = seqv
        sq = {'_seq': seqval} if seqval is not None else {}
        if poskeys is not None:
            sq['_pos'] = FuncVal('builtin', qual='zfunc.pos', py=(self.snapshot_idx[poskeys.t[1].get_id()], KInt))
        if seqval is not None and seqval.t[1].get_id() in self.snapshot_idx:
            # iteration over a dict/set snapshot: _pos(key) is the position of a key in the iteration order
            sq['_pos'] = FuncVal('builtin', qual='zfunc.pos', py=(self.snapshot_idx[seqval.t[1].get_id()], KInt))
        outs = []
        if seqval is not None:
            st.env['_seq%d' % idx] = seqval     # the iterated list, for ghost_out witnesses of the enclosing contract
        entry = st.copy()
        zero = z3.IntVal(0)
        self.check_inv(st, fr, inv, idx, 'entry', entry, dict(sq, _i=ops.SI(zero), _n=ops.SI(n)))
        # arbitrary iteration
        body_st = st.copy()
        i = z3.Int(fresh_name('i'))
        # loop specials under the loop's ordinal (_i0, _pos0, _seq0): visible to the invariants of nested loops
        saved_outer = fr.bound
        fr.bound = dict(fr.bound)
        fr.bound['_i%d' % idx] = ops.SI(i)
        for k_, v_ in sq.items():
            fr.bound['%s%d' % (k_, idx)] = v_
        try:
            return self.loop_vc_body(s, st, fr, idx, inv, n, get, sq, outs, entry, body_st, i)
        finally:
            fr.bound = saved_outer

    def loop_vc_body(self, s, st, fr, idx, inv, n, get, sq, outs, entry, body_st, i):
        tnames = assigned_names([ast.Assign(targets=[s.target], value=ast.Constant(0))])
        pj = z3.Int(fresh_name('pi'))
        changed, _ = self.havoc_for_loop(s, body_st, fr, s.body, tnames,
                                         bind=lambda p: self.assign(s.target, get(p, pj), p, fr))
        self.loop_frame(body_st, changed, 'assume')
        exit_st = body_st.copy()
        body_st.assume(i >= 0, i < n)
        extra = dict(sq, _i=ops.SI(i), _n=ops.SI(n))
        self.assume_inv(body_st, fr, inv, idx, entry, extra)
        if self.feasible(body_st):
            self.canary(body_st, '%s#loop[%d].canary' % (fr.prefix, idx))
            item = get(body_st, i)
            fr_body = fr
            for s2, oc in self.assign(s.target, item, body_st, fr):
                if oc is not NEXT:
                    outs.append((s2, oc))
                    continue
                saved = fr.bound
                fr.bound = dict(fr.bound)
                fr.bound['_i'] = ops.SI(i)
                try:
                    body_outs = self.ex(s.body, s2, fr)
                finally:
                    fr.bound = saved
                for s3, oc3 in body_outs:
                    if oc3 is NEXT or oc3 is CONT:
                        self.check_inv(s3, fr, inv, idx, 'preserve', entry, dict(sq, _i=ops.SI(i + 1), _n=ops.SI(n)))
                        self.loop_frame(s3, changed, 'check', '%s#loop[%d]' % (fr.prefix, idx))
                    elif oc3 is BREAK:
                        s3.marks['broke_%d' % idx] = True
                        outs.append((s3, NEXT))
                    else:
                        outs.append((s3, oc3))
        # normal exit
        exit_st.assume(i == n)
        self.assume_inv(exit_st, fr, inv, idx, entry, dict(sq, _i=ops.SI(n), _n=ops.SI(n)))
        if self.feasible(exit_st):
            outs += self.ex(s.orelse, exit_st, fr)
        return outs

    def ex_While(self, s, st, fr):
        idx, inv = self.loop_spec(s, fr)
        if inv is None:
            raise CheckerError('loop without invariant: %s loop[%s] (%s)' % (fr.qual, idx, self.loop_sig(s)))
        if inv.sig != self.loop_sig(s):
            self.stats['dropped'].add('loop signature changed: %s loop[%s]: %r != %r' % (fr.qual, idx, inv.sig, self.loop_sig(s)))
        outs = []
        entry = st.copy()
        self.check_inv(st, fr, inv, idx, 'entry', entry, {})
        head = st.copy()
        changed, _ = self.havoc_for_loop(s, head, fr, s.body)
        self.loop_frame(head, changed, 'assume')
        self.assume_inv(head, fr, inv, idx, entry, {})
        for s2, c in self.ev(s.test, head, fr):
            if is_exc(c):
                outs.append(self.exc_out(s2, c))
                continue
            tt, ff = self.fork(s2, truthy(c))
            if tt is not None:
                self.canary(tt, '%s#loop[%d].canary' % (fr.prefix, idx))
                for s3, oc3 in self.ex(s.body, tt, fr):
                    if oc3 is NEXT or oc3 is CONT:
                        self.check_inv(s3, fr, inv, idx, 'preserve', entry, {})
                        self.loop_frame(s3, changed, 'check', '%s#loop[%d]' % (fr.prefix, idx))
                    elif oc3 is BREAK:
                        outs.append((s3, NEXT))
                    else:
                        outs.append((s3, oc3))
            if ff is not None:
                outs += self.ex(s.orelse, ff, fr)
        return outs
