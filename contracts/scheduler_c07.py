"""C07 - a running instance is displaced only for an instance ahead of it in the queue.

Decided for one walk of a queue (Cell._find_placements, i.e. one partition's allocation in one cycle):
an instance that is on an up member server when the walk starts, is not blacklisted and not over its
utilisation cap, is on that server when the walk ends unless an instance strictly ahead of it in the queue
gained a placement during the walk.

The argument: victims are always behind the instance being placed; as long as nobody ahead has gained a
placement, every server still has room for all the victims taken off it (pend_room) and every node of the
tree has affinity head-room for them (pend_aff), so the restore that is tried first when a victim's turn
comes cannot fail.  The two "pending" quantities are folds over the `evicted` map of the real function.
Clauses of C03 (standing placements are valid, only visited instances or victims changed server) and of C04
(counter deltas, limits) are used as hypotheses; they are discharged by their own checks."""
from pyvc_api import *   # noqa
import scheduler_core    # noqa
import scheduler_cell    # noqa
import scheduler_c04     # noqa

M = 'treadmill.scheduler'
EV = 'Dict[Application,Tuple[Server,Opt[Real]]]'

# demand of the victims taken off server s that are still remembered in `evicted`
fold('pend_demand', EV, 'lambda a, v, s: (a.demand if v[0] == s else vec_zero())',
     params=['Server'], ret='Vec', keyed=True, nonneg=True)
# number of remembered victims of affinity x that were taken off a server at or below node r
fold('pend_count', EV, 'lambda a, v, r, x: (1 if (a.affinity.name == x and (r == v[0] or anc(r, v[0]))) else 0)',
     params=['Node', 'Name'], ret='Int', keyed=True, nonneg=True)


@spec
def gained(b):
    return b.server is not None and b.server != old(b.server)


@spec
def someone_gained(queue, hi):
    """Some instance among the first `hi` of the queue gained a placement during this walk."""
    return exists(lambda j: 0 <= j and j < hi and gained(queue[j]), 'Int')


@spec
def qualifies(a, servers):
    """On an up member server when the walk starts, not blacklisted, not over its utilisation cap."""
    return (old(a.server) is not None and old(a.server) in servers and
            servers[old(a.server)]._state == State.up and not a.blacklisted and
            a.final_rank != 9223372036854775807)


@spec
def pend_room(evicted, servers):
    return forall(lambda n: implies(n in servers, vec_ge(servers[n].free_capacity,
                                                         pend_demand(evicted, servers[n]))), 'Name')


@spec
def pend_aff(evicted):
    return forall(lambda r, x: implies(pend_count(evicted, r, x) > 0,
                                       r.affinity_counters[x] + pend_count(evicted, r, x) <=
                                       aff_limit(x, r.level)), 'Node', 'Name')


@spec
def pend_static(evicted):
    """A remembered victim was validly placed on the (up) server it was taken off."""
    return forall(lambda a: implies(a in evicted, placed_valid(a, evicted[a][0]) and
                                    evicted[a][0]._state == State.up and
                                    evicted[a][0].name == old(a.server)), 'Application')


NOGAIN0 = 'not someone_gained(queue, _i)'
NOGAIN1 = 'not someone_gained(queue, qidx(queue, app))'

extend(M + ':Cell._find_placements',
       requires=[('C07', 'standing_ok(self, servers)'), ('C07', 'tree_wf()'), ('C07', 'self.parent is None'),
                 ('C07', 'limits_shared(self)'), ('C07', 'lim_ok()')],
       ensures=[('C07', 'forall(lambda j: implies(0 <= j and j < len(queue) and qualifies(queue[j], servers), '
                        '       queue[j].server == old(queue[j].server) or someone_gained(queue, j)), "Int")',
                 'displaced_only_for_ahead')],
       loops={
           0: [('C07', 'forall(lambda j: implies(0 <= j and j < _i and qualifies(queue[j], servers), '
                       '       queue[j].server == old(queue[j].server) or someone_gained(queue, j)), "Int")', 'visited_kept'),
               ('C07', 'implies(%s, pend_room(evicted, servers))' % NOGAIN0, 'pend_room'),
               ('C07', 'implies(%s, pend_aff(evicted))' % NOGAIN0, 'pend_aff'),
               ('C07', 'pend_static(evicted)', 'pend_static')],
           1: [('C07', 'forall(lambda j: implies(0 <= j and j < qidx(queue, app), '
                       '       queue[j].server == at_loop_entry(queue[j].server)), "Int")', 'ahead_untouched'),
               # the instance being placed: if it was displaced earlier in this walk and could not be restored,
               # somebody ahead of it has gained a placement (established before the eviction loop starts)
               ('C07', 'implies(qualifies(app, servers), someone_gained(queue, qidx(queue, app)))', 'arriving_ok'),
               ('C07', 'implies(%s, pend_room(evicted, servers))' % NOGAIN1, 'pend_room'),
               ('C07', 'implies(%s, pend_aff(evicted))' % NOGAIN1, 'pend_aff'),
               ('C07', 'pend_static(evicted)', 'pend_static')]})
