"""C16 - what a container start registers on the host is removed again when it finishes.

Functions under contract: treadmill.runtime.linux._run:_unshare_network (the registrations it makes before entering the new
network namespace), treadmill.runtime.linux._finish:_cleanup_network and _cleanup_ephemeral_ports.

The two sides are written apart from each other; the property is that they agree on WHAT is registered.  Both contracts are
stated against one specification of "the registrations of this manifest" (reg_rule / reg_ipset below: functions of the
manifest, the container's unique name, its vip and the host's external ip):
  start   : every rule file / ip-set entry it touches is a registration of the manifest; afterwards every registration that
            was free is bound to this container (or the start fails on an entry owned by somebody else);
  finish  : every rule file it removes is a registration of the manifest that was bound to THIS container (it never removes
            another container's entry); afterwards no registration of the manifest is bound to this container and none of
            its ip-set entries is left.
"As they were" follows from the two contracts for every entry that was free before the start (two-line argument, DESIGN 0.70).

The real RuleMgr.create_rule / unlink_rule are executed (inlined) over the ghost file system; rule file names come from
RuleMgr._filenameify, assumed to be a FUNCTION OF THE RULE'S FIELDS (rfile); endpoint specs and ip sets are dependency
contracts.
"""
from pyvc_api import *   # noqa
import c14_vipfile       # noqa  (file-system spec helpers: same_except, fs_same)

RUN = 'treadmill.runtime.linux._run'
FIN = 'treadmill.runtime.linux._finish'
R = 'treadmill.rulefile'

FW = {'proto': 'Name', 'src_ip': 'Name', 'src_port': 'Int', 'dst_ip': 'Name', 'dst_port': 'Int', 'new_ip': 'Name',
      'new_port': 'Int'}
cls('FwRule', None, FW)
cls('DNATRule', 'treadmill.firewall', FW, shares='FwRule')
cls('SNATRule', 'treadmill.firewall', FW, shares='FwRule')
cls('PassThroughRule', 'treadmill.firewall', {'src_ip': 'Name', 'dst_ip': 'Name'}, shares='FwRule')
cls('RuleMgr', R, {'_base_path': 'Name', '_owner_path': 'Name'})
cls('EndpointsMgr', 'treadmill.endpoints', {'_base_path': 'Name'})
cls('AppEnvironment', 'treadmill.appenv', {'rules': 'RuleMgr', 'endpoints': 'EndpointsMgr', 'apps_dir': 'Name'})
cls('Endpoint', None, {'name': 'Name', 'port': 'Int', 'real_port': 'Int', 'proto': 'Name', 'type': 'Opt[Name]'})
cls('EphemeralPorts', None, {'tcp': 'List[Int]', 'udp': 'List[Int]'})
cls('Network', None, {'vip': 'Name', 'external_ip': 'Name', 'veth': 'Name', 'gateway': 'Name'})
cls('NetRec', None, {'vip': 'Name', 'external_ip': 'Name'}, record=True)
cls('App', None, {'name': 'Name', 'endpoints': 'List[Endpoint]', 'network': 'Network', 'vring': 'Bool',
                  'ephemeral_ports': 'EphemeralPorts', 'passthrough': 'Opt[List[Name]]', 'shared_ip': 'Bool'})
cls('NetworkClient', None, {})

ufunc('rfile', ['Name', 'Int', 'Name', 'Name', 'Int', 'Name', 'Int', 'Name', 'Int'], 'Name')
ufunc('uname_of', ['App'], 'Name')            # appcfg.app_unique_name(app)
ufunc('host_ip', ['Name'], 'Name')            # socket.gethostbyname(host)


@spec
def ipset_dir(s):
    """An ip set, seen as a (pseudo) directory of entries in the file-system ghost."""
    return name_of(str_fn('ipset_dir', s))


@spec
def ipset_entry(s):
    return name_of(str_fn('ipset_entry', s))



@spec
def rule_key(chain, r):
    """File name of a rule: a function of the chain and of the fields its class has."""
    return ite(cls_is(r, 'DNATRule'),
               rfile(chain, 1, r.proto, r.src_ip, r.src_port, r.dst_ip, r.dst_port, r.new_ip, r.new_port),
               ite(cls_is(r, 'SNATRule'),
                   rfile(chain, 2, r.proto, r.src_ip, r.src_port, r.dst_ip, r.dst_port, r.new_ip, r.new_port),
                   rfile(chain, 3, None, r.src_ip, 0, r.dst_ip, 0, None, 0)))


contract(R + ':RuleMgr._filenameify', types={'chain': 'Name', 'rule': 'FwRule', 'return': 'Name'},
         ensures=['result == rule_key(chain, rule)'], assumed=True,
         note='file name of a rule: a function of the chain, the rule class and the fields of that class (that distinct '
              'rules get distinct names is C15; not needed here)')
contract('treadmill.appcfg:app_unique_name', types={'app': 'App', 'return': 'Name'}, ensures=['result == uname_of(app)'],
         assumed=True, note='unique name of the container: a function of the manifest (name, uniqueid)')
# socket.gethostbyname(host) is modelled as host_ip(host) (engine_prelude): name resolution is a FUNCTION of the host name -
# the FIXME in _cleanup_network says that nothing guarantees this in reality (dependency assumption)
contract('lib:os.getpid', types={'$params': [], 'return': 'Name'}, assumed=True, note='an opaque token')
contract('treadmill.iptables:add_ip_set', types={'target_set': 'Str', 'add_ip': 'Str'},
         ensures=['fs_kind(ipset_dir(target_set), ipset_entry(add_ip)) == 1',
                  'same_except(ipset_dir(target_set), ipset_entry(add_ip))'],
         modifies=['fs'], assumed=True, note='ipset -exist add: the entry is in the set afterwards, nothing else changes')
contract('treadmill.iptables:rm_ip_set', types={'target_set': 'Str', 'del_ip': 'Str'},
         ensures=['fs_kind(ipset_dir(target_set), ipset_entry(del_ip)) == 0',
                  'same_except(ipset_dir(target_set), ipset_entry(del_ip))'],
         modifies=['fs'], assumed=True, note='ipset -exist del: the entry is not in the set afterwards, nothing else changes')


# ------------------------------------------------------------------ the registrations of a manifest
@spec
def reg_rule(app, vip, ext, n):
    """n is the file name of a firewall rule that a start of this manifest registers."""
    return (exists(lambda j: 0 <= j and j < len(app.endpoints) and
                   (n == rfile('TM_PREROUTING_DNAT', 1, app.endpoints[j].proto, '0.0.0.0/0', 0, ext,
                               app.endpoints[j].real_port, vip, app.endpoints[j].port) or
                    n == rfile('TM_POSTROUTING_SNAT', 2, app.endpoints[j].proto, vip, app.endpoints[j].port, '0.0.0.0/0', 0,
                               ext, app.endpoints[j].real_port)), 'Int') or
            exists(lambda j: 0 <= j and j < len(app.ephemeral_ports.tcp) and
                   n == rfile('TM_PREROUTING_DNAT', 1, 'tcp', '0.0.0.0/0', 0, ext, app.ephemeral_ports.tcp[j], vip,
                              app.ephemeral_ports.tcp[j]), 'Int') or
            exists(lambda j: 0 <= j and j < len(app.ephemeral_ports.udp) and
                   n == rfile('TM_PREROUTING_DNAT', 1, 'udp', '0.0.0.0/0', 0, ext, app.ephemeral_ports.udp[j], vip,
                              app.ephemeral_ports.udp[j]), 'Int') or
            (app.passthrough is not None and
             exists(lambda j: 0 <= j and j < len(app.passthrough) and
                    n == rfile('TM_PASSTHROUGH', 3, None, host_ip(app.passthrough[j]), 0, vip, 0, None, 0), 'Int')))


@spec
def rules_dir(tm_env):
    return tm_env.rules._base_path


@spec
def owned(tm_env, n, u):
    """Rule file n is bound to container u."""
    return fs_kind(rules_dir(tm_env), n) == 2 and fs_target(rules_dir(tm_env), n) == path(tm_env.rules._owner_path, u)


@spec
def rules_wf(tm_env):
    """The rules directory holds only links into the owners directory (what RuleMgr establishes, C14)."""
    return (forall(lambda n: fs_kind(rules_dir(tm_env), n) == 0 or
                   (fs_kind(rules_dir(tm_env), n) == 2 and fs_target(rules_dir(tm_env), n)[0] == tm_env.rules._owner_path),
                   'Name') and
            tm_env.rules._base_path != tm_env.rules._owner_path)


@spec
def rule_same(tm_env, n):
    return (fs_kind(rules_dir(tm_env), n) == old(fs_kind(rules_dir(tm_env), n)) and
            fs_target(rules_dir(tm_env), n) == old(fs_target(rules_dir(tm_env), n)))


@spec
def encoding_ok(tm_env):
    """ip sets are not directories: the pseudo-directories that stand for them are neither the rules nor the owners
    directory (an artefact of keeping ip sets in the file-system ghost)."""
    return forall(lambda s: ipset_dir(s) != tm_env.rules._base_path and ipset_dir(s) != tm_env.rules._owner_path, 'Str')


@spec
def eph_key(proto, ext, vip, port):
    return rfile('TM_PREROUTING_DNAT', 1, proto, '0.0.0.0/0', 0, ext, port, vip, port)


@spec
def eph_entry(vip, proto, port):
    return ipset_entry('{ip},{proto}:{port}'.format(ip=vip, proto=proto, port=port))


@spec
def infra_present(vip, proto, port):
    return fs_kind(ipset_dir('tm:container-infra-services'), eph_entry(vip, proto, port))


@spec
def vring_present(vip):
    return fs_kind(ipset_dir('tm:vring-containers'), ipset_entry(str_of(vip)))


@spec
def reg_ipset(app, vip, d, n):
    """(d, n) is an ip-set entry that a start of this manifest registers."""
    return ((d == ipset_dir('tm:vring-containers') and n == ipset_entry(str_of(vip)) and app.vring) or
            (d == ipset_dir('tm:container-infra-services') and
             (exists(lambda j: 0 <= j and j < len(app.endpoints) and app.endpoints[j].type == 'infra' and
                     n == eph_entry(vip, app.endpoints[j].proto, app.endpoints[j].port), 'Int') or
              exists(lambda j: 0 <= j and j < len(app.ephemeral_ports.tcp) and
                     n == eph_entry(vip, 'tcp', app.ephemeral_ports.tcp[j]), 'Int') or
              exists(lambda j: 0 <= j and j < len(app.ephemeral_ports.udp) and
                     n == eph_entry(vip, 'udp', app.ephemeral_ports.udp[j]), 'Int'))))


@spec
def ipsets_only(tm_env, app, vip, added):
    """Outside the rules and endpoints directories nothing changes except ip-set registrations of the manifest, which
    only appear (added) resp. only disappear."""
    return forall(lambda d, n: implies(d != rules_dir(tm_env) and d != tm_env.endpoints._base_path,
                                       fs_kind(d, n) == old(fs_kind(d, n)) or
                                       (fs_kind(d, n) == (1 if added else 0) and reg_ipset(app, vip, d, n))),
                  'Name', 'Name')


# ------------------------------------------------------------------ _finish._cleanup_ephemeral_ports
contract(FIN + ':_cleanup_ephemeral_ports',
         types={'tm_env': 'AppEnvironment', 'unique_name': 'Name', 'external_ip': 'Name', 'vip': 'Name',
                'ports': 'List[Int]', 'proto': 'Name', 'dnatrule': 'DNATRule'},
         requires=['rules_wf(tm_env)', 'encoding_ok(tm_env)'],
         ensures=['rules_wf(tm_env)',
                  ('C16', 'forall(lambda j: implies(0 <= j and j < len(ports), '
                          '       not owned(tm_env, eph_key(proto, external_ip, vip, ports[j]), unique_name)), "Int")',
                   'own_rules_removed'),
                  ('C16', 'forall(lambda n: implies(not rule_same(tm_env, n), '
                          '       old(owned(tm_env, n, unique_name)) and fs_kind(rules_dir(tm_env), n) == 0 and '
                          '       exists(lambda j: 0 <= j and j < len(ports) and '
                          '              n == eph_key(proto, external_ip, vip, ports[j]), "Int")), "Name")',
                   'only_own_registrations_removed'),
                  ('C16', 'forall(lambda j: implies(0 <= j and j < len(ports), '
                          '       fs_kind(ipset_dir("tm:container-infra-services"), eph_entry(vip, proto, ports[j])) == 0), "Int")',
                   'infra_entries_removed'),
                  # outside the rules directory only the infra entries of these ports change, and they only disappear
                  ('C16', 'forall(lambda d, n: implies(d != rules_dir(tm_env), fs_kind(d, n) == old(fs_kind(d, n)) or '
                          '       (fs_kind(d, n) == 0 and d == ipset_dir("tm:container-infra-services") and '
                          '        exists(lambda j: 0 <= j and j < len(ports) and n == eph_entry(vip, proto, ports[j]), "Int"))), '
                          '       "Name", "Name")', 'nothing_added_elsewhere')],
         modifies=['fs', 'alloc'], props=['C16'])
invariant(FIN + ':_cleanup_ephemeral_ports', 0, 'for port in ports',
          ['rules_wf(tm_env)', 'encoding_ok(tm_env)',
           ('C16', 'forall(lambda d, n: implies(d != rules_dir(tm_env), fs_kind(d, n) == old(fs_kind(d, n)) or '
                   '       (fs_kind(d, n) == 0 and d == ipset_dir("tm:container-infra-services") and '
                   '        exists(lambda j: 0 <= j and j < _i and n == eph_entry(vip, proto, ports[j]), "Int"))), "Name", "Name")'),
           ('C16', 'forall(lambda j: implies(0 <= j and j < _i, '
                   '       not owned(tm_env, eph_key(proto, external_ip, vip, ports[j]), unique_name)), "Int")'),
           ('C16', 'forall(lambda n: implies(not rule_same(tm_env, n), '
                   '       old(owned(tm_env, n, unique_name)) and fs_kind(rules_dir(tm_env), n) == 0 and '
                   '       exists(lambda j: 0 <= j and j < _i and n == eph_key(proto, external_ip, vip, ports[j]), "Int")), "Name")'),
           ('C16', 'forall(lambda j: implies(0 <= j and j < _i, '
                   '       fs_kind(ipset_dir("tm:container-infra-services"), eph_entry(vip, proto, ports[j])) == 0), "Int")')])


# ------------------------------------------------------------------ _finish._cleanup_network
ufunc('net_vip', ['Name'], 'Name')
ufunc('net_ext', ['Name'], 'Name')
ufunc('net_allocated', ['Name'], 'Bool')
contract('lib:NetworkClient.get', types={'$params': ['self', 'rsrc_id'], 'rsrc_id': 'Name', 'return': 'Opt[NetRec]'},
         raises={'ResourceServiceError': ['fs_same()', 'not net_allocated(rsrc_id)']},
         ensures=['(result is not None) == net_allocated(rsrc_id)',
                  'implies(result is not None, result["vip"] == net_vip(rsrc_id) and result["external_ip"] == net_ext(rsrc_id))',
                  'fs_same()'],
         modifies=['alloc'], assumed=True,
         note='the network resource allocated to the container at start (vip, external ip), None when already freed')
contract('lib:NetworkClient.delete', types={'$params': ['self', 'rsrc_id'], 'rsrc_id': 'Name'}, ensures=['fs_same()'],
         assumed=True, note='frees the network resource (veth, vip): outside the registrations this property names')
contract('treadmill.endpoints:EndpointsMgr.unlink_all',
         types={'appname': 'Name', 'proto': 'Opt[Name]', 'endpoint': 'Opt[Name]', 'owner': 'Opt[Name]'},
         ensures=['forall(lambda d, n: implies(d != self._base_path, fs_kind(d, n) == old(fs_kind(d, n)) and '
                  '       fs_target(d, n) == old(fs_target(d, n))), "Name", "Name")'],
         modifies=['fs'], assumed=True,
         note='removes endpoint specs of the instance owned by the container from the endpoints directory only '
              '(glob over spec names; its own-owner check is under contract in ./check C14 for unlink_spec)')
contract(FIN + ':_cleanup_exception_rules', types={'tm_env': 'AppEnvironment', 'container_dir': 'Name', 'app': 'App'},
         ensures=['fs_same()'], assumed=True,
         note='site firewall plugin (none configured by default): assumed not to touch the registrations named here')
contract('treadmill.iptables:flush_cnt_conntrack_table', types={'vip': 'Name'}, ensures=['fs_same()'], assumed=True)


@spec
def pt_key(ip, vip):
    return rfile('TM_PASSTHROUGH', 3, None, ip, 0, vip, 0, None, 0)


@spec
def dnat_key(e, ext, vip):
    return rfile('TM_PREROUTING_DNAT', 1, e.proto, '0.0.0.0/0', 0, ext, e.real_port, vip, e.port)


@spec
def snat_key(e, ext, vip):
    return rfile('TM_POSTROUTING_SNAT', 2, e.proto, vip, e.port, '0.0.0.0/0', 0, ext, e.real_port)


@spec
def only_own_removed(tm_env, app, u, vip, ext):
    """Every rule file that changed was bound to this container, is gone now, and is a registration of the manifest;
    nothing became bound to this container."""
    return (forall(lambda n: implies(not rule_same(tm_env, n),
                                     old(owned(tm_env, n, u)) and fs_kind(rules_dir(tm_env), n) == 0 and
                                     reg_rule(app, vip, ext, n)), 'Name') and
            forall(lambda n: implies(owned(tm_env, n, u), old(owned(tm_env, n, u))), 'Name'))


@spec
def env_ok(tm_env):
    return (rules_wf(tm_env) and encoding_ok(tm_env) and tm_env.endpoints._base_path != tm_env.rules._base_path and
            tm_env.endpoints._base_path != tm_env.rules._owner_path and
            forall(lambda s: ipset_dir(s) != tm_env.endpoints._base_path, 'Str'))


contract(FIN + ':_cleanup_network',
         types={'tm_env': 'AppEnvironment', 'container_dir': 'Name', 'app': 'App', 'network_client': 'NetworkClient',
                'app_network': 'Opt[NetRec]', 'ips': 'Set[Name]', 'unique_name': 'Name'},
         requires=['env_ok(tm_env)'],
         ensures=[# never removes an entry belonging to another container; removes only registrations of this manifest
                  ('C16', 'only_own_removed(tm_env, app, uname_of(app), net_vip(uname_of(app)), net_ext(uname_of(app)))',
                   'only_own_registrations_removed'),
                  # unless the network was never allocated / already freed (then nothing is left to clean: nothing changes),
                  # no registration of the manifest is bound to this container afterwards
                  ('C16', 'not net_allocated(uname_of(app)) or forall(lambda n: implies(reg_rule(app, net_vip(uname_of(app)), net_ext(uname_of(app)), n), '
                          '       not owned(tm_env, n, uname_of(app))), "Name")', 'all_registrations_removed'),
                  ('C16', 'implies(not net_allocated(uname_of(app)), forall(lambda n: rule_same(tm_env, n), "Name"))', 'freed_nothing_changes'),
                  # ip sets
                  ('C16', 'not net_allocated(uname_of(app)) or '
                          ' implies(app.vring, fs_kind(ipset_dir("tm:vring-containers"), ipset_entry(str_of(net_vip(uname_of(app))))) == 0)',
                   'vring_entry_removed'),
                  ('C16', 'not net_allocated(uname_of(app)) or '
                          ' forall(lambda j: implies(0 <= j and j < len(app.ephemeral_ports.tcp), '
                          '   fs_kind(ipset_dir("tm:container-infra-services"), eph_entry(net_vip(uname_of(app)), "tcp", app.ephemeral_ports.tcp[j])) == 0), "Int")',
                   'tcp_infra_entries_removed'),
                  ('C16', 'not net_allocated(uname_of(app)) or '
                          ' forall(lambda j: implies(0 <= j and j < len(app.ephemeral_ports.udp), '
                          '   fs_kind(ipset_dir("tm:container-infra-services"), eph_entry(net_vip(uname_of(app)), "udp", app.ephemeral_ports.udp[j])) == 0), "Int")',
                   'udp_infra_entries_removed'),
                  ('C16', 'not net_allocated(uname_of(app)) or '
                          ' forall(lambda j: implies(0 <= j and j < len(app.endpoints) and app.endpoints[j].type == "infra", '
                          '   infra_present(net_vip(uname_of(app)), app.endpoints[j].proto, app.endpoints[j].port) == 0), "Int")',
                   'endpoint_infra_entries_removed'),
                  # ip sets carry no owner: only entries of this manifest (keyed by its vip) may go, nothing may appear
                  ('C16', 'ipsets_only(tm_env, app, net_vip(uname_of(app)), False)', 'only_own_ipset_entries_removed'),
                  # repeatable: once the network resource is freed a finish touches NOTHING (not even ip sets)
                  ('C16', 'implies(not net_allocated(uname_of(app)), fs_same())', 'freed_touches_nothing')],
         raises={},
         modifies=['fs', 'alloc'], props=['C16'])
invariant(FIN + ':_cleanup_network', 0, 'for ip in ips',
          ['env_ok(tm_env)', 'unique_name == uname_of(app)', 'app_network is not None',
           'app_network["vip"] == net_vip(unique_name) and app_network["external_ip"] == net_ext(unique_name)',
           ('C16', 'only_own_removed(tm_env, app, unique_name, net_vip(unique_name), net_ext(unique_name))'),
           ('C16', 'ipsets_only(tm_env, app, net_vip(unique_name), False)'),
           ('C16', 'forall(lambda j: implies(0 <= j and j < _i, not owned(tm_env, pt_key(_seq[j], net_vip(unique_name)), unique_name)), "Int")')])
invariant(FIN + ':_cleanup_network', 1, 'for endpoint in app.endpoints',
          ['env_ok(tm_env)', 'unique_name == uname_of(app)', 'app_network is not None',
           'app_network["vip"] == net_vip(unique_name) and app_network["external_ip"] == net_ext(unique_name)',
           ('C16', 'only_own_removed(tm_env, app, unique_name, net_vip(unique_name), net_ext(unique_name))'),
           ('C16', 'implies(app.passthrough is not None, forall(lambda j: implies(0 <= j and j < len(app.passthrough), '
                   '  not owned(tm_env, pt_key(host_ip(app.passthrough[j]), net_vip(unique_name)), unique_name)), "Int"))'),
           ('C16', 'implies(app.vring, fs_kind(ipset_dir("tm:vring-containers"), ipset_entry(str_of(net_vip(unique_name)))) == 0)'),
           ('C16', 'ipsets_only(tm_env, app, net_vip(unique_name), False)'),
           ('C16', 'forall(lambda j: implies(0 <= j and j < _i and app.endpoints[j].type == "infra", '
                   '  infra_present(net_vip(unique_name), app.endpoints[j].proto, app.endpoints[j].port) == 0), "Int")'),
           ('C16', 'forall(lambda j: implies(0 <= j and j < _i, '
                   '  not owned(tm_env, dnat_key(app.endpoints[j], net_ext(unique_name), net_vip(unique_name)), unique_name) and '
                   '  not owned(tm_env, snat_key(app.endpoints[j], net_ext(unique_name), net_vip(unique_name)), unique_name)), "Int")')])


# ------------------------------------------------------------------ _run._unshare_network (the registrations of a start)
cls('FirewallPlugin', None, {})
contract('treadmill.plugin_manager:load', types={'namespace': 'Str', 'name': 'Str', 'return': 'FirewallPlugin'},
         ensures=['fs_same()'], modifies=['alloc'], assumed=True, note='loads the site firewall plugin')
contract('lib:FirewallPlugin.apply_exception_rules', types={'$params': ['self', 'tm_env', 'container_dir', 'app']},
         ensures=['fs_same()'], assumed=True,
         note='site firewall plugin (none configured by default): assumed not to touch the registrations named here')
contract('treadmill.newnet:create_newnet', types={'veth': 'Name', 'dev_ip': 'Name', 'gateway_ip': 'Name', 'service_ip': 'Opt[Name]'},
         ensures=['fs_same()'], assumed=True, note='unshares the network namespace and configures the veth pair')
contract('treadmill.endpoints:EndpointsMgr.create_spec',
         types={'appname': 'Name', 'proto': 'Name', 'endpoint': 'Name', 'real_port': 'Int', 'pid': 'Str', 'port': 'Int',
                'owner': 'Path'},
         raises={'OSError': ['fs_same()']},
         ensures=['forall(lambda d, n: implies(d != self._base_path, fs_kind(d, n) == old(fs_kind(d, n)) and '
                  '       fs_target(d, n) == old(fs_target(d, n))), "Name", "Name")'],
         modifies=['fs'], assumed=True,
         note='creates one endpoint spec link in the endpoints directory (under contract in ./check C14); nothing outside '
              'that directory changes')


@spec
def only_registrations_added(tm_env, app, u):
    """Every rule file that changed was free, is bound to this container now, and is a registration of the manifest."""
    return forall(lambda n: implies(not rule_same(tm_env, n),
                                    old(fs_kind(rules_dir(tm_env), n)) == 0 and owned(tm_env, n, u) and
                                    reg_rule(app, app.network.vip, app.network.external_ip, n)), 'Name')


contract(RUN + ':_unshare_network',
         types={'tm_env': 'AppEnvironment', 'container_dir': 'Name', 'app': 'App', 'unique_name': 'Name', 'owner': 'Path',
                'new_ips': 'Set[Name]', 'service_ip': 'Opt[Name]'},
         requires=['env_ok(tm_env)'],
         # an entry owned by somebody else makes the start fail; what was registered so far is a registration of the manifest
         raises={'OSError': [('C16', 'only_registrations_added(tm_env, app, uname_of(app))', 'failed_start_only_registrations')]},
         ensures=[('C16', 'only_registrations_added(tm_env, app, uname_of(app))', 'only_registrations_added'),
                  ('C16', 'forall(lambda n: implies(reg_rule(app, app.network.vip, app.network.external_ip, n), '
                          '       owned(tm_env, n, uname_of(app))), "Name")', 'all_registrations_bound'),
                  ('C16', 'ipsets_only(tm_env, app, app.network.vip, True)', 'only_own_ipset_entries_added'),
                  ('C16', 'forall(lambda j: implies(0 <= j and j < len(app.endpoints) and app.endpoints[j].type == "infra", '
                          '  infra_present(app.network.vip, app.endpoints[j].proto, app.endpoints[j].port) == 1), "Int")',
                   'endpoint_infra_entries_added'),
                  ('C16', 'forall(lambda j: implies(0 <= j and j < len(app.ephemeral_ports.tcp), '
                          '  infra_present(app.network.vip, "tcp", app.ephemeral_ports.tcp[j]) == 1), "Int")', 'tcp_infra_entries_added'),
                  ('C16', 'forall(lambda j: implies(0 <= j and j < len(app.ephemeral_ports.udp), '
                          '  infra_present(app.network.vip, "udp", app.ephemeral_ports.udp[j]) == 1), "Int")', 'udp_infra_entries_added'),
                  ('C16', 'implies(app.vring and len(app.endpoints) > 0, vring_present(app.network.vip) == 1)', 'vring_entry_added')],
         modifies=['fs', 'alloc'], props=['C16'])
INV_START = ['env_ok(tm_env)', 'unique_name == uname_of(app)',
             ('C16', 'only_registrations_added(tm_env, app, unique_name)'),
             ('C16', 'ipsets_only(tm_env, app, app.network.vip, True)')]
EP_INFRA = ('C16', 'forall(lambda j: implies(0 <= j and j < len(app.endpoints) and app.endpoints[j].type == "infra", '
                   '  infra_present(app.network.vip, app.endpoints[j].proto, app.endpoints[j].port) == 1), "Int")')
VRING_IN = ('C16', 'implies(app.vring and len(app.endpoints) > 0, vring_present(app.network.vip) == 1)')
invariant(RUN + ':_unshare_network', 0, 'for endpoint in app.endpoints', INV_START + [
    ('C16', 'forall(lambda j: implies(0 <= j and j < _i and app.endpoints[j].type == "infra", '
            '  infra_present(app.network.vip, app.endpoints[j].proto, app.endpoints[j].port) == 1), "Int")'),
    ('C16', 'implies(app.vring and _i > 0, vring_present(app.network.vip) == 1)'),
    ('C16', 'forall(lambda j: implies(0 <= j and j < _i, '
            '  owned(tm_env, dnat_key(app.endpoints[j], app.network.external_ip, app.network.vip), unique_name) and '
            '  owned(tm_env, snat_key(app.endpoints[j], app.network.external_ip, app.network.vip), unique_name)), "Int")')])
EP_DONE = ('C16', 'forall(lambda j: implies(0 <= j and j < len(app.endpoints), '
                  '  owned(tm_env, dnat_key(app.endpoints[j], app.network.external_ip, app.network.vip), unique_name) and '
                  '  owned(tm_env, snat_key(app.endpoints[j], app.network.external_ip, app.network.vip), unique_name)), "Int")')
invariant(RUN + ':_unshare_network', 1, 'for port in app.ephemeral_ports.tcp', INV_START + [EP_DONE, EP_INFRA, VRING_IN,
    ('C16', 'forall(lambda j: implies(0 <= j and j < _i, infra_present(app.network.vip, "tcp", app.ephemeral_ports.tcp[j]) == 1), "Int")'),
    ('C16', 'forall(lambda j: implies(0 <= j and j < _i, owned(tm_env, eph_key("tcp", app.network.external_ip, '
            '  app.network.vip, app.ephemeral_ports.tcp[j]), unique_name)), "Int")')])
TCP_DONE = ('C16', 'forall(lambda j: implies(0 <= j and j < len(app.ephemeral_ports.tcp), owned(tm_env, eph_key("tcp", '
                   '  app.network.external_ip, app.network.vip, app.ephemeral_ports.tcp[j]), unique_name)), "Int")')
TCP_IN = ('C16', 'forall(lambda j: implies(0 <= j and j < len(app.ephemeral_ports.tcp), '
                 '  infra_present(app.network.vip, "tcp", app.ephemeral_ports.tcp[j]) == 1), "Int")')
invariant(RUN + ':_unshare_network', 2, 'for port in app.ephemeral_ports.udp', INV_START + [EP_DONE, TCP_DONE, EP_INFRA, VRING_IN, TCP_IN,
    ('C16', 'forall(lambda j: implies(0 <= j and j < _i, infra_present(app.network.vip, "udp", app.ephemeral_ports.udp[j]) == 1), "Int")'),
    ('C16', 'forall(lambda j: implies(0 <= j and j < _i, owned(tm_env, eph_key("udp", app.network.external_ip, '
            '  app.network.vip, app.ephemeral_ports.udp[j]), unique_name)), "Int")')])
UDP_DONE = ('C16', 'forall(lambda j: implies(0 <= j and j < len(app.ephemeral_ports.udp), owned(tm_env, eph_key("udp", '
                   '  app.network.external_ip, app.network.vip, app.ephemeral_ports.udp[j]), unique_name)), "Int")')
UDP_IN = ('C16', 'forall(lambda j: implies(0 <= j and j < len(app.ephemeral_ports.udp), '
                 '  infra_present(app.network.vip, "udp", app.ephemeral_ports.udp[j]) == 1), "Int")')
invariant(RUN + ':_unshare_network', 3, 'for ipaddr in new_ips', INV_START + [EP_DONE, TCP_DONE, UDP_DONE, EP_INFRA, VRING_IN, TCP_IN, UDP_IN,
    ('C16', 'forall(lambda j: implies(0 <= j and j < _i, owned(tm_env, pt_key(_seq[j], app.network.vip), unique_name)), "Int")')])
