"""C09 / C10 - what the master publishes under /placement equals its model; a crash at any write of a publication
never leaves an instance under two servers, and a master started on ANY stored state publishes its model.

Functions under contract (treadmill.scheduler.master:Master): _placement_data, init_schedule, reschedule, remove_app.

Ghost state: the writable ZooKeeper store of engine_fs (zk_exists / zk_content per path) behind the storage backend
(dependency contracts of Backend.put / delete / list / ensure_exists / exists below).  Paths are cp-chains
(zknamespace.path.placement = make_path_f(PLACEMENT), read off the real source; os.path.join onto a path is cp).
A payload is an opaque token with projections any_get(token, key).

Crash points (C10): the store changes only inside Backend.put / delete / ensure_exists (one ZooKeeper operation each).
`no_dup` (no instance under two servers) is a call-site clause in the state before every such call of a publication,
a loop invariant and a postcondition: every state a crash can leave behind is one of those.
"""
from pyvc_api import *   # noqa
import scheduler_core    # noqa  (class schemas of the scheduler model)

M = 'treadmill.scheduler.master'
MS = M + ':Master'
S = 'treadmill.scheduler'

PLC = 'List[Tuple[Name,Opt[Name],Opt[Real],Opt[Name],Opt[Real]]]'
cls('Backend', None, {})
cls('Master', M, {'cell': 'Cell', 'servers': 'Dict[Name,Server]', 'backend': 'Backend',
                  'app_events_dir': 'Opt[Name]', 'up_to_date': 'Bool'})

ufunc('cp', ['Str', 'Str'], 'Str')
ufunc('cp_parent', ['Str'], 'Str')
ufunc('cp_name', ['Str'], 'Str')
axiom('cp-injective',
      'forall(lambda a, b: cp_parent(cp(a, b)) == a and cp_name(cp(a, b)) == b, "Str", "Str", pat=cp(a, b))',
      note="'/'.join of znode names (which cannot contain '/') is injective: parent and name are functions of the path")
axiom('placement-root-not-grandchild',
      'forall(lambda x, y: cp(cp("/placement", x), y) != "/placement", "Str", "Str", pat=cp(cp("/placement", x), y))',
      note="'/placement/<x>/<y>' is not the string '/placement'")
axiom('placement-root-not-child', 'forall(lambda x: cp("/placement", x) != "/placement", "Str", pat=cp("/placement", x))',
      note="'/placement/<x>' is not the string '/placement'")

opaque('treadmill.zknamespace.path')
ghostvar('MEMBERS', 'Dict[Name,Server]')


@spec
def pl(s, a):
    """The placement node of instance a under server s."""
    return cp(cp('/placement', str_of(s)), str_of(a))


@spec
def zk_same(p):
    return (zk_exists(p) == old(zk_exists(p))) and zk_content(p) == old(zk_content(p))


@spec
def others_same(path):
    return forall(lambda p: implies(p != path, zk_same(p)), 'Str')


@spec
def all_same():
    return forall(lambda p: zk_same(p), 'Str')


# ------------------------------------------------------------------ dependency contracts (assumed)
contract('lib:Backend.put', types={'$params': ['self', 'path', 'value'], 'path': 'Str', 'value': 'Any'},
         ensures=['zk_exists(path)', 'zk_content(path) == value', 'others_same(path)'],
         modifies=['zk'], assumed=True, note='ZkBackend.put = zkutils.put: create or overwrite; one atomic store operation')
contract('lib:Backend.delete', types={'$params': ['self', 'path'], 'path': 'Str'},
         ensures=['not zk_exists(path)', 'others_same(path)'],
         modifies=['zk'], assumed=True, note='ZkBackend.delete = zkutils.ensure_deleted: absent node tolerated (placement '
                                             'entries have no children)')
contract('lib:Backend.ensure_exists', types={'$params': ['self', 'path'], 'path': 'Str'},
         ensures=['zk_exists(path)', 'implies(old(zk_exists(path)), zk_content(path) == old(zk_content(path)))',
                  'others_same(path)'],
         modifies=['zk'], assumed=True, note='creates the (empty) node if it is missing')
contract('lib:Backend.get_default', types={'$params': ['self', 'path', 'default'], '$defaults': {'default': None},
                                           'path': 'Str', 'return': 'Any'},
         ensures=['implies(zk_exists(path), result == zk_content(path))', 'all_same()'], assumed=True,
         note='the stored payload (the default if the node is missing)')
contract('lib:Backend.exists', types={'$params': ['self', 'path'], 'path': 'Str', 'return': 'Bool'},
         ensures=['result == zk_exists(path)', 'all_same()'], assumed=True)
contract('lib:Backend.list', types={'$params': ['self', 'path'], 'path': 'Str', 'return': 'List[Name]'},
         raises={'ObjectNotFoundError': ['not zk_exists(path)', 'all_same()',
                                         # ZooKeeper is a tree: a missing node has no children
                                         'forall(lambda n: not zk_exists(cp(path, str_of(n))), "Name")']},
         ensures=['forall(lambda n: (n in result) == zk_exists(cp(path, str_of(n))), "Name")',
                  'forall(lambda n: exists(lambda j: 0 <= j and j < len(result) and result[j] == n, "Int") == '
                  '       zk_exists(cp(path, str_of(n))), "Name")',
                  'forall(lambda i, j: implies(0 <= i and i < j and j < len(result), result[i] != result[j]), "Int", "Int")',
                  'all_same()'],
         modifies=['alloc'], assumed=True, note='ZkBackend.list = get_children: the existing children, each once')
contract(S + ':Node.members', types={'return': 'Dict[Name,Server]'},
         ensures=['result == MEMBERS',
                  'forall(lambda n: implies(n in result, result[n].name == n), "Name")'],
         assumed=True, note='the name -> server map of the tree leaves (C01: Cell.members)')
contract(MS + '._update_task', types={'appname': 'Name', 'server': 'Opt[Name]', 'why': 'Any'}, assumed=True,
         note='posts a trace event file (trace.post); no effect on the model or on /placement')
contract('lib:json.dumps', types={'$params': ['obj'], 'obj': PLC, 'return': 'Any'}, assumed=True, note='serialisation: a token')
contract('lib:zlib.compress', types={'$params': ['data'], 'data': 'Any', 'return': 'Any'}, assumed=True, note='compression: a token')
contract(MS + '._save_placement', types={'placement': PLC, 'placement_data': 'Any', 'placement_zdata': 'Any'},
         ensures=[('C09,C10', 'forall(lambda s, a: zk_same(pl(s, a)), "Name", "Name")', 'entries_untouched')],
         modifies=['zk'], props=['C09', 'C10'])


# ------------------------------------------------------------------ the payload
@spec
def pd_ok(self, a, tok):
    """The stored payload carries the identity and the expiry the model holds for instance a."""
    return (any_get(tok, 'identity') == any_tok(self.cell.apps[a].identity) and
            any_get(tok, 'expires') == any_tok(self.cell.apps[a].placement_expiry))


contract(MS + '._placement_data', types={'app': 'Name', 'return': 'Any'},
         requires=['app in self.cell.apps'],
         ensures=[('C09', 'pd_ok(self, app, result)', 'carries_identity_and_expiry')],
         props=['C09'])


# ------------------------------------------------------------------ published == model
@spec
def placed_on(self, a, s):
    return a in self.cell.apps and self.cell.apps[a].server == s


@spec
def pub_exact(self):
    """Exactly one entry per placed instance, under its server; none for anything else (member servers)."""
    return forall(lambda s, a: implies(s in MEMBERS, zk_exists(pl(s, a)) == placed_on(self, a, s)), 'Name', 'Name')


@spec
def no_dup():
    """C10: no instance has placement records under two servers."""
    return forall(lambda a, s, t: implies(zk_exists(pl(s, a)) and zk_exists(pl(t, a)), s == t), 'Name', 'Name', 'Name')


# ------------------------------------------------------------------ the scheduling cycle, as the master sees it (assumed)
ufunc('ridx', [PLC, 'Name'], 'Int')


@spec
def model_ok(self):
    """C01's end-of-cycle views: a member server lists exactly the instances placed on it; placed instances are on
    member servers."""
    return (forall(lambda s, a: implies(s in MEMBERS, (a in MEMBERS[s].apps) == placed_on(self, a, s)), 'Name', 'Name') and
            forall(lambda a: implies(a in self.cell.apps and self.cell.apps[a].server is not None,
                                     self.cell.apps[a].server in MEMBERS), 'Name'))


contract(S + ':Cell.schedule', types={'return': PLC},
         ensures=[# one record per instance of the cell: (name, server before, expiry before, server after, expiry after)
                  'forall(lambda j: implies(0 <= j and j < len(result), '
                  '       result[j][0] in self.apps and ridx(result, result[j][0]) == j and '
                  '       result[j][1] == old(self.apps[result[j][0]].server) and '
                  '       result[j][2] == old(self.apps[result[j][0]].placement_expiry) and '
                  '       result[j][3] == self.apps[result[j][0]].server and '
                  '       result[j][4] == self.apps[result[j][0]].placement_expiry), "Int")',
                  'forall(lambda a: implies(a in self.apps, 0 <= ridx(result, a) and ridx(result, a) < len(result) and '
                  '       result[ridx(result, a)][0] == a), "Name")',
                  'forall(lambda a: (a in self.apps) == old(a in self.apps), "Name")',
                  'forall(lambda a: implies(a in self.apps, self.apps[a] == old(self.apps[a]) and self.apps[a].name == a), "Name")',
                  # an instance whose server and expiry are what they were was not touched by the cycle
                  'forall(lambda a: implies(a in self.apps and self.apps[a].server == old(self.apps[a].server) and '
                  '       self.apps[a].placement_expiry == old(self.apps[a].placement_expiry), '
                  '       self.apps[a].identity == old(self.apps[a].identity)), "Name")',
                  # C01 (proved by ./check C01: link_ok / back_ok)
                  'forall(lambda s, a: implies(s in MEMBERS, (a in MEMBERS[s].apps) == '
                  '       (a in self.apps and self.apps[a].server == s)), "Name", "Name")',
                  'forall(lambda a: implies(a in self.apps and self.apps[a].server is not None, '
                  '       self.apps[a].server in MEMBERS), "Name")'],
         modifies=[('Application.server', 'lambda a: True'), ('Application.identity', 'lambda a: True'),
                   ('Application.placement_expiry', 'lambda a: True'), ('Application.evicted', 'lambda a: True'),
                   ('Application.final_rank', 'lambda a: True'), ('Application.final_util', 'lambda a: True'),
                   ('Application.renew', 'lambda a: True'), ('Application.unschedule', 'lambda a: True'),
                   ('Server.apps', 'lambda s: True'), ('Node.free_capacity', 'lambda s: True'),
                   ('Node.affinity_counters', 'lambda s: True'), ('IdentityGroup.available', 'lambda g: True'),
                   ('Allocation.label', 'lambda a: True'), ('SpreadStrategy.current_idx', 'lambda a: True'),
                   'self.next_event_at', 'clock', 'alloc'],
         assumed=True,
         note='summary of the cycle for the publisher: the returned list has one (name, before, after) record per instance '
              '(Cell.schedule builds it from Allocation.all_apps of every partition; that these are exactly the cell\'s '
              'instances, each once, is C06 clause 1) and the model views agree afterwards (C01, proved by ./check C01)')


# ------------------------------------------------------------------ Master.init_schedule
contract(MS + '.init_schedule',
         types={'placement': PLC, 'current': 'Set[Name]', 'correct': 'Set[Name]', 'placement_node': 'Str'},
         requires=[('C10', 'no_dup()')],
         ensures=[('C09', 'pub_exact(self)', 'exact_on_members'),
                  ('C09', 'forall(lambda s, a: implies(s not in MEMBERS, not zk_exists(pl(s, a))), "Name", "Name")',
                   'nothing_under_unknown_servers'),
                  ('C09', 'forall(lambda s, a: implies(s in MEMBERS and placed_on(self, a, s), '
                          '       pd_ok(self, a, zk_content(pl(s, a)))), "Name", "Name")', 'content_is_model'),
                  ('C10', 'no_dup()', 'no_dup')],
         modifies=['zk', 'alloc', 'clock', 'self.up_to_date'] + [
             ('Application.server', 'lambda a: True'), ('Application.identity', 'lambda a: True'),
             ('Application.placement_expiry', 'lambda a: True'), ('Application.evicted', 'lambda a: True'),
             ('Application.final_rank', 'lambda a: True'), ('Application.final_util', 'lambda a: True'),
             ('Application.renew', 'lambda a: True'), ('Application.unschedule', 'lambda a: True'),
             ('Server.apps', 'lambda s: True'), ('Node.free_capacity', 'lambda s: True'),
             ('Node.affinity_counters', 'lambda s: True'), ('IdentityGroup.available', 'lambda g: True'),
             ('Allocation.label', 'lambda a: True'), ('SpreadStrategy.current_idx', 'lambda a: True'),
             ('Cell.next_event_at', 'lambda c: True')],
         props=['C09', 'C10'])


@spec
def entries_known():
    """Placement entries exist only under servers of the model."""
    return forall(lambda s, a: implies(zk_exists(pl(s, a)), s in MEMBERS), 'Name', 'Name')


@spec
def entry_same(s, a):
    return zk_exists(pl(s, a)) == old(zk_exists(pl(s, a))) and zk_content(pl(s, a)) == old(zk_content(pl(s, a)))


@spec
def not_created():
    """No entry was created or rewritten (removal pass)."""
    return forall(lambda s, a: implies(zk_exists(pl(s, a)), old(zk_exists(pl(s, a))) and
                                       zk_content(pl(s, a)) == old(zk_content(pl(s, a)))), 'Name', 'Name')


@spec
def no_stale_members(self):
    return forall(lambda s, a: implies(s in MEMBERS and zk_exists(pl(s, a)), placed_on(self, a, s)), 'Name', 'Name')


@spec
def unknown_untouched():
    return forall(lambda s, a: implies(s not in MEMBERS, entry_same(s, a)), 'Name', 'Name')


extend(MS + '.init_schedule', requires=[('C10', 'entries_known()')])

# pass 1: removals
invariant(MS + '.init_schedule', 0, 'for (servername, server) in self.cell.members().items()',
          ['model_ok(self)',
           'forall(lambda s: implies(s in MEMBERS and _pos(s) < _i, zk_exists(cp("/placement", str_of(s)))), "Name")',
           ('C09,C10', 'not_created()'),
           ('C09,C10', 'forall(lambda s, a: implies(s in MEMBERS and _pos(s) < _i and zk_exists(pl(s, a)), placed_on(self, a, s)), '
                   '       "Name", "Name")'),
           ('C09', 'forall(lambda s, a: implies(placed_on(self, a, s) and old(zk_exists(pl(s, a))), zk_exists(pl(s, a))), '
                   '       "Name", "Name")'),
           ('C09', 'unknown_untouched()'),
           ('C10', 'no_dup()'), ('C10', 'entries_known()')])
invariant(MS + '.init_schedule', 1, 'for app in current - correct',
          ['model_ok(self)', 'servername in MEMBERS and MEMBERS[servername] == server and server.name == servername',
           'placement_node == cp("/placement", str_of(servername))',
           'forall(lambda a: (a in correct) == (a in server.apps), "Name")',
           '_pos0(servername) == _i0',
           'forall(lambda s: implies(s in MEMBERS and _pos0(s) <= _i0, zk_exists(cp("/placement", str_of(s)))), "Name")',
           ('C09,C10', 'not_created()'),
           ('C09,C10', 'forall(lambda s, a: implies(s in MEMBERS and _pos0(s) < _i0 and zk_exists(pl(s, a)), '
                   '       placed_on(self, a, s)), "Name", "Name")'),
           ('C09', 'forall(lambda s, a: implies(placed_on(self, a, s) and old(zk_exists(pl(s, a))), zk_exists(pl(s, a))), '
                   '       "Name", "Name")'),
           ('C09', 'unknown_untouched()'),
           ('C09,C10', 'forall(lambda a: zk_exists(pl(servername, a)) == '
                   '       (a in current and not exists(lambda j: 0 <= j and j < _i and _seq[j] == a, "Int")), "Name")'),
           ('C10', 'no_dup()'), ('C10', 'entries_known()')])


@spec
def srv_node(s):
    return cp('/placement', str_of(s))


@spec
def done_server(self, s):
    """Server s is published: every instance the model has on it has an entry carrying the model's data."""
    return forall(lambda a: implies(placed_on(self, a, s), zk_exists(pl(s, a)) and pd_ok(self, a, zk_content(pl(s, a)))),
                  'Name')


# pass 2: creations and refreshed data
invariant(MS + '.init_schedule', 2, 'for (servername, server) in self.cell.members().items()',
          ['model_ok(self)',
           'forall(lambda s: implies(s in MEMBERS, zk_exists(cp("/placement", str_of(s)))), "Name")',
           ('C09,C10', 'no_stale_members(self)'),
           ('C09', 'forall(lambda s: implies(s in MEMBERS and _pos(s) < _i, done_server(self, s)), "Name")'),
           ('C09', 'unknown_untouched()'),
           ('C10', 'no_dup()'), ('C10', 'entries_known()')])
invariant(MS + '.init_schedule', 3, 'for app in correct - current',
          ['model_ok(self)', 'servername in MEMBERS and MEMBERS[servername] == server and server.name == servername',
           'placement_node == cp("/placement", str_of(servername))',
           'forall(lambda a: (a in correct) == (a in server.apps), "Name")',
           '_pos2(servername) == _i2',
           'forall(lambda s: implies(s in MEMBERS, zk_exists(cp("/placement", str_of(s)))), "Name")',
           ('C09,C10', 'no_stale_members(self)'),
           ('C09', 'forall(lambda s: implies(s in MEMBERS and _pos2(s) < _i2, done_server(self, s)), "Name")'),
           ('C09', 'unknown_untouched()'),
           ('C09,C10', 'forall(lambda a: zk_exists(pl(servername, a)) == '
                   '       (a in current or exists(lambda j: 0 <= j and j < _i and _seq[j] == a, "Int")), "Name")'),
           ('C09', 'forall(lambda j: implies(0 <= j and j < _i, pd_ok(self, _seq[j], zk_content(pl(servername, _seq[j])))), "Int")'),
           ('C10', 'no_dup()'), ('C10', 'entries_known()')])
invariant(MS + '.init_schedule', 4, 'for app in correct & current',
          ['model_ok(self)', 'servername in MEMBERS and MEMBERS[servername] == server and server.name == servername',
           'placement_node == cp("/placement", str_of(servername))',
           'forall(lambda a: (a in correct) == (a in server.apps), "Name")',
           '_pos2(servername) == _i2',
           'forall(lambda s: implies(s in MEMBERS, zk_exists(cp("/placement", str_of(s)))), "Name")',
           ('C09,C10', 'no_stale_members(self)'),
           ('C09', 'forall(lambda s: implies(s in MEMBERS and _pos2(s) < _i2, done_server(self, s)), "Name")'),
           ('C09', 'unknown_untouched()'),
           ('C09,C10', 'forall(lambda a: implies(a in correct, zk_exists(pl(servername, a))), "Name")'),
           ('C09', 'forall(lambda a: implies(a in correct and a not in current, pd_ok(self, a, zk_content(pl(servername, a)))), "Name")'),
           ('C09', 'forall(lambda j: implies(0 <= j and j < _i, pd_ok(self, _seq[j], zk_content(pl(servername, _seq[j])))), "Int")'),
           ('C10', 'no_dup()'), ('C10', 'entries_known()')])

# C10: every write of the publication starts from a state without duplicates (crash points)
for _callee in ('delete', 'put', 'ensure_exists'):
    site(MS + '.init_schedule', _callee, asserts=[('C10', 'no_dup()', 'no_dup_before_write')])


# ------------------------------------------------------------------ Master.reschedule (every later cycle)
axiom('placement-not-finished', 'forall(lambda x: cp("/placement", x) != "/finished" and cp("/placement", x) != "/scheduled", '
                                '       "Str", pat=cp("/placement", x))',
      note="'/placement/<x>' is neither '/finished' nor '/scheduled'")


@spec
def pub_all(self):
    """The inductive form of C09 between cycles: an entry exists exactly for the placed instances, under their server,
    for ALL server names."""
    return forall(lambda s, a: zk_exists(pl(s, a)) == placed_on(self, a, s), 'Name', 'Name')


@spec
def content_all(self):
    return forall(lambda s, a: implies(placed_on(self, a, s), pd_ok(self, a, zk_content(pl(s, a)))), 'Name', 'Name')


contract(MS + '._unschedule_evicted', types={},
         ensures=[('C09,C10', 'forall(lambda s, a: entry_same(s, a), "Name", "Name")', 'placement_untouched')],
         modifies=['zk', 'alloc', 'clock'], props=['C09', 'C10'])
invariant(MS + '._unschedule_evicted', 0, 'for (appname, app) in self.cell.apps.items()',
          [('C09,C10', 'forall(lambda s, a: entry_same(s, a), "Name", "Name")')])

CYCLE_MODIFIES = ['zk', 'alloc', 'clock', 'self.up_to_date'] + [
    ('Application.server', 'lambda a: True'), ('Application.identity', 'lambda a: True'),
    ('Application.placement_expiry', 'lambda a: True'), ('Application.evicted', 'lambda a: True'),
    ('Application.final_rank', 'lambda a: True'), ('Application.final_util', 'lambda a: True'),
    ('Application.renew', 'lambda a: True'), ('Application.unschedule', 'lambda a: True'),
    ('Server.apps', 'lambda s: True'), ('Node.free_capacity', 'lambda s: True'),
    ('Node.affinity_counters', 'lambda s: True'), ('IdentityGroup.available', 'lambda g: True'),
    ('Allocation.label', 'lambda a: True'), ('SpreadStrategy.current_idx', 'lambda a: True'),
    ('Cell.next_event_at', 'lambda c: True')]


@spec
def was_on(self, a, s):
    """Instance a was placed on s when the cycle started."""
    return old(placed_on(self, a, s))


@spec
def moved(self, a):
    """The cycle took a off the server it was on (to another server or to pending)."""
    return (a in self.cell.apps and old(self.cell.apps[a].server) is not None and
            old(self.cell.apps[a].server) != self.cell.apps[a].server)


@spec
def changed(self, a):
    return (a in self.cell.apps and (old(self.cell.apps[a].server) != self.cell.apps[a].server or
                                     old(self.cell.apps[a].placement_expiry) != self.cell.apps[a].placement_expiry))


@spec
def cp_ok(self, CP):
    """changed_placement: the records of exactly the changed instances, each once, with their before / after."""
    return (forall(lambda p: implies(0 <= p and p < len(CP), CP[p][0] in self.cell.apps and changed(self, CP[p][0]) and
                                     CP[p][1] == old(self.cell.apps[CP[p][0]].server) and
                                     CP[p][3] == self.cell.apps[CP[p][0]].server and cidx(CP, CP[p][0]) == p), 'Int') and
            forall(lambda a: implies(changed(self, a), 0 <= cidx(CP, a) and cidx(CP, a) < len(CP) and
                                     CP[cidx(CP, a)][0] == a), 'Name'))


ufunc('cidx', [PLC, 'Name'], 'Int')
axiom('cidx-least-index',
      'forall(lambda L, j: implies(0 <= j and j < len(L), 0 <= cidx(L, L[j][0]) and cidx(L, L[j][0]) <= j and '
      '       L[cidx(L, L[j][0])][0] == L[j][0]), "%s", "Int")' % PLC,
      note='cidx(L, a) is the least index of a record of instance a in L (definable witness function)')

contract(MS + '.reschedule',
         types={'placement': PLC, 'changed_placement': PLC, 'why': 'Str'},
         requires=[('C09,C10', 'pub_all(self)'), ('C09', 'content_all(self)'),
                   'forall(lambda a: implies(a in self.cell.apps, self.cell.apps[a].name == a), "Name")'],
         ensures=[('C09', 'pub_all(self)', 'exactly_the_placed'),
                  ('C09', 'content_all(self)', 'content_is_model'),
                  ('C10', 'no_dup()', 'no_dup')],
         modifies=CYCLE_MODIFIES, props=['C09', 'C10'])
# removals first
invariant(MS + '.reschedule', 0, 'for (app, before, _exp_before, after, _exp_after) in changed_placement',
          ['model_ok(self)', 'cp_ok(self, changed_placement)',
           'forall(lambda a: (a in self.cell.apps) == old(a in self.cell.apps), "Name")',
           ('C09,C10', 'forall(lambda s, a: zk_exists(pl(s, a)) == (was_on(self, a, s) and '
                       '       not (moved(self, a) and cidx(changed_placement, a) < _i)), "Name", "Name")'),
           ('C09', 'forall(lambda s, a: implies(zk_exists(pl(s, a)), zk_content(pl(s, a)) == old(zk_content(pl(s, a)))), '
                   '       "Name", "Name")')])
# then creations
invariant(MS + '.reschedule', 1, 'for (app, before, _exp_before, after, exp_after) in changed_placement',
          ['model_ok(self)', 'cp_ok(self, changed_placement)',
           'forall(lambda a: (a in self.cell.apps) == old(a in self.cell.apps), "Name")',
           ('C09,C10', 'forall(lambda s, a: zk_exists(pl(s, a)) == '
                       '       ((was_on(self, a, s) and not moved(self, a)) or '
                       '        (changed(self, a) and cidx(changed_placement, a) < _i and self.cell.apps[a].server == s)), '
                       '       "Name", "Name")'),
           ('C09', 'forall(lambda s, a: implies(zk_exists(pl(s, a)) and '
                   '       not (changed(self, a) and cidx(changed_placement, a) < _i), '
                   '       zk_content(pl(s, a)) == old(zk_content(pl(s, a)))), "Name", "Name")'),
           ('C09', 'forall(lambda a: implies(changed(self, a) and cidx(changed_placement, a) < _i and '
                   '       self.cell.apps[a].server is not None, '
                   '       pd_ok(self, a, zk_content(pl(self.cell.apps[a].server, a)))), "Name")')])
for _callee in ('delete', 'put'):
    site(MS + '.reschedule', _callee, asserts=[('C10', 'no_dup()', 'no_dup_before_write')])


# ------------------------------------------------------------------ Master.remove_app (an instance is deleted between cycles)
cls('DeletedTraceEvent', 'treadmill.trace.app.events', {})
contract('treadmill.trace.app.events:AppTraceEvent.__init__', types={'instanceid': 'Name', 'timestamp': 'Any', 'source': 'Any', 'payload': 'Any'}, assumed=True,
         note='trace event object; no effect on the model or the store')
contract('treadmill.trace:post', types={'events_dir': 'Name', 'event': 'DeletedTraceEvent'}, assumed=True,
         note='writes an event file on the local disk; no effect on the model or the store')
contract(S + ':Cell.remove_app', types={'appname': 'Name'},
         ensures=['forall(lambda a: (a in self.apps) == (old(a in self.apps) and a != appname), "Name")',
                  'forall(lambda a: implies(a in self.apps, self.apps[a] == old(self.apps[a]) and '
                  '       self.apps[a].server == old(self.apps[a].server) and '
                  '       self.apps[a].identity == old(self.apps[a].identity) and '
                  '       self.apps[a].placement_expiry == old(self.apps[a].placement_expiry)), "Name")'],
         modifies=['self.apps', ('Application.server', 'lambda a: True'), ('Application.identity', 'lambda a: True'),
                   ('Application.placement_expiry', 'lambda a: True'), ('Application.evicted', 'lambda a: True'),
                   ('Application.allocation', 'lambda a: True'),
                   ('Server.apps', 'lambda s: True'), ('Node.free_capacity', 'lambda s: True'),
                   ('Node.affinity_counters', 'lambda s: True'), ('IdentityGroup.available', 'lambda g: True'),
                   ('Allocation.apps', 'lambda a: True')],
         assumed=True,
         note='summary for the publisher: the instance leaves the cell, no other instance changes server, identity or expiry '
              '(Cell.remove_app is under contract for C05 in ./check C05)')
contract(MS + '.remove_app', types={'appname': 'Name'},
         requires=[('C09,C10', 'pub_all(self)'), ('C09', 'content_all(self)'),
                   'forall(lambda a: implies(a in self.cell.apps, self.cell.apps[a].name == a), "Name")'],
         ensures=[('C09,C10', 'pub_all(self)', 'exactly_the_placed'), ('C09', 'content_all(self)', 'content_is_model')],
         modifies=['zk', 'alloc', 'clock', ('Cell.apps', 'lambda c: True'),
                   ('Application.server', 'lambda a: True'), ('Application.identity', 'lambda a: True'),
                   ('Application.placement_expiry', 'lambda a: True'), ('Application.evicted', 'lambda a: True'),
                   ('Application.allocation', 'lambda a: True'),
                   ('Server.apps', 'lambda s: True'), ('Node.free_capacity', 'lambda s: True'),
                   ('Node.affinity_counters', 'lambda s: True'), ('IdentityGroup.available', 'lambda g: True'),
                   ('Allocation.apps', 'lambda a: True')],
         props=['C09', 'C10'])

# C10: deleting an instance never passes through a state with a duplicate either
for _callee in ('delete', 'put'):
    site(MS + '.remove_app', _callee, asserts=[('C10', 'no_dup()', 'no_dup_before_write')])
extend(MS + '.remove_app', ensures=[('C10', 'no_dup()', 'no_dup')])
