"""C19 — reservations never exceed partition capacity or trait limits.

Contracts on treadmill/api/allocation.py.  Postconditions are taken from the
property statement: free capacity per resource r is parse_r(limit[r]) minus the
sum of parse_r(a[r]) over the other reservations (the replaced one excluded),
per trait only over reservations carrying that trait.
"""
from pyvc_api import *   # noqa

M = 'treadmill.api.allocation'

record('AllocRec', {'_id': 'Name', 'cpu': 'Str', 'disk': 'Str', 'memory': 'Str', 'traits': 'List[Name]'})
record('LimitRec', {'trait': 'Name', 'cpu': 'Str', 'disk': 'Str', 'memory': 'Str'})
record('PartRec', {'cpu': 'Str', 'disk': 'Str', 'memory': 'Str', 'limits': 'List[LimitRec]'})
record('FreeRec', {'cpu': 'Int', 'disk': 'Int', 'memory': 'Int'})
record('RsrcRec', {'cpu': 'Str', 'disk': 'Str', 'memory': 'Str', 'partition': 'Name',
                   'traits': 'List[Name]', 'has_traits': 'Bool'})

# value of a schema-valid resource string (defined by the parsers' own contracts, units.py)
ufunc('cpu_val', ['Str'], 'Int')
ufunc('size_val', ['Str'], 'Int')
ufunc('valid_cpu', ['Str'], 'Bool')
ufunc('valid_size', ['Str'], 'Bool')


@spec
def alloc_valid(a):
    return valid_cpu(a['cpu']) and valid_size(a['disk']) and valid_size(a['memory'])


@spec
def allocs_valid(allocs):
    return all(alloc_valid(a) for a in allocs)


@spec
def used(allocs, old_id, n, which):
    """Sum over allocs[:n], the one named old_id excluded, of resource `which`."""
    return sum_range(lambda j: 0 if allocs[j]['_id'] == old_id else
                     (cpu_val(allocs[j]['cpu']) if which == 0 else
                      (size_val(allocs[j]['disk']) if which == 1 else size_val(allocs[j]['memory']))), n)


@spec
def used_trait(allocs, old_id, n, trait, which):
    return sum_range(lambda j: 0 if (allocs[j]['_id'] == old_id or trait not in allocs[j]['traits']) else
                     (cpu_val(allocs[j]['cpu']) if which == 0 else
                      (size_val(allocs[j]['disk']) if which == 1 else size_val(allocs[j]['memory']))), n)


contract('treadmill.utils:cpu_units', types={'value': 'Str', 'return': 'Int'},
         requires=['valid_cpu(value)'], ensures=['result == cpu_val(value)'], props=['C19', 'C01'],
         assumed=True, note='verified separately under units.py (string theory); assumed at C19 call sites')
contract('treadmill.utils:size_to_bytes', types={'size': 'Str', 'return': 'Int'},
         requires=['valid_size(size)'], ensures=['result == size_val(size)'], props=['C19', 'C01'],
         assumed=True, note='verified separately under units.py')

contract(M + ':_calc_free',
         types={'limit': 'PartRec', 'allocs': 'List[AllocRec]', 'old_id': 'Name', 'return': 'FreeRec'},
         requires=['valid_cpu(limit["cpu"])', 'valid_size(limit["disk"])', 'valid_size(limit["memory"])',
                   'allocs_valid(allocs)'],
         ensures=['result["cpu"] == cpu_val(limit["cpu"]) - used(allocs, old_id, len(allocs), 0)',
                  'result["disk"] == size_val(limit["disk"]) - used(allocs, old_id, len(allocs), 1)',
                  'result["memory"] == size_val(limit["memory"]) - used(allocs, old_id, len(allocs), 2)'],
         modifies=['alloc'], props=['C19'])
invariant(M + ':_calc_free', 0, 'for alloc in allocs',
          ['free["cpu"] == cpu_val(limit["cpu"]) - used(allocs, old_id, _i, 0)',
           'free["disk"] == size_val(limit["disk"]) - used(allocs, old_id, _i, 1)',
           'free["memory"] == size_val(limit["memory"]) - used(allocs, old_id, _i, 2)'])

contract(M + ':_check_limit',
         types={'limit': 'FreeRec', 'request': 'RsrcRec', 'extra_info': 'Str'},
         requires=['valid_cpu(request["cpu"])', 'valid_size(request["disk"])', 'valid_size(request["memory"])'],
         ensures=['cpu_val(request["cpu"]) <= limit["cpu"]',
                  'size_val(request["disk"]) <= limit["disk"]',
                  'size_val(request["memory"]) <= limit["memory"]'],
         raises={'InvalidInputError': ['not (cpu_val(request["cpu"]) <= limit["cpu"] and '
                                       'size_val(request["disk"]) <= limit["disk"] and '
                                       'size_val(request["memory"]) <= limit["memory"])']},
         props=['C19'])
