"""C19 — reservations never exceed partition capacity or trait limits.

Contracts on treadmill/api/allocation.py.  Postconditions are taken from the
property statement: free capacity per resource r is parse_r(limit[r]) minus the
sum of parse_r(a[r]) over the other reservations (the replaced one excluded),
per trait only over reservations carrying that trait.
"""
from pyvc_api import *   # noqa

M = 'treadmill.api.allocation'

record('AllocRec', {'_id': 'Name', 'cpu': 'Str', 'disk': 'Str', 'memory': 'Str', 'traits': 'List[Name]'})
record('LimitRec', {'trait': 'Name', 'cpu': 'Str', 'disk': 'Str', 'memory': 'Str'})
record('PartRec', {'cpu': 'Str', 'disk': 'Str', 'memory': 'Str', 'limits': 'List[LimitRec]'})
record('FreeRec', {'cpu': 'Int', 'disk': 'Int', 'memory': 'Int'})
record('RsrcRec', {'cpu': 'Str', 'disk': 'Str', 'memory': 'Str', 'partition': 'Name',
                   'traits': 'List[Name]', 'has_traits': 'Bool', 'rank': 'Int', 'has_rank': 'Bool'})

# value of a schema-valid resource string (defined by the parsers' own contracts, units.py)
ufunc('cpu_val', ['Str'], 'Int')
ufunc('size_val', ['Str'], 'Int')
ufunc('valid_cpu', ['Str'], 'Bool')
ufunc('valid_size', ['Str'], 'Bool')


@spec
def alloc_valid(a):
    return valid_cpu(a['cpu']) and valid_size(a['disk']) and valid_size(a['memory'])


@spec
def allocs_valid(allocs):
    return all(alloc_valid(a) for a in allocs)


@spec
def used(allocs, old_id, n, which):
    """Sum over allocs[:n], the one named old_id excluded, of resource `which`.
    (fold parameters are explicit so that the recursive function is the same at every use)"""
    return sum_range(lambda j, allocs, old_id: 0 if allocs[j]['_id'] == old_id else
                     (cpu_val(allocs[j]['cpu']) if which == 0 else
                      (size_val(allocs[j]['disk']) if which == 1 else size_val(allocs[j]['memory']))),
                     n, allocs, old_id)


contract('treadmill.utils:cpu_units', types={'value': 'Str', 'return': 'Int'},
         requires=['valid_cpu(value)'], ensures=['result == cpu_val(value)'], props=['C19', 'C01'],
         assumed=True, note='verified separately under units.py (string theory); assumed at C19 call sites')
contract('treadmill.utils:size_to_bytes', types={'size': 'Str', 'return': 'Int'},
         requires=['valid_size(size)'], ensures=['result == size_val(size)'], props=['C19', 'C01'],
         assumed=True, note='verified separately under units.py')

contract(M + ':_calc_free',
         types={'limit': 'PartRec', 'allocs': 'List[AllocRec]', 'old_id': 'Name', 'return': 'FreeRec'},
         requires=['valid_cpu(limit["cpu"])', 'valid_size(limit["disk"])', 'valid_size(limit["memory"])',
                   'allocs_valid(allocs)'],
         ensures=['result["cpu"] == cpu_val(limit["cpu"]) - used(allocs, old_id, len(allocs), 0)',
                  'result["disk"] == size_val(limit["disk"]) - used(allocs, old_id, len(allocs), 1)',
                  'result["memory"] == size_val(limit["memory"]) - used(allocs, old_id, len(allocs), 2)'],
         modifies=['alloc'], props=['C19'])
invariant(M + ':_calc_free', 0, 'for alloc in allocs',
          ['free["cpu"] == cpu_val(limit["cpu"]) - used(allocs, old_id, _i, 0)',
           'free["disk"] == size_val(limit["disk"]) - used(allocs, old_id, _i, 1)',
           'free["memory"] == size_val(limit["memory"]) - used(allocs, old_id, _i, 2)'])

contract(M + ':_check_limit',
         types={'limit': 'FreeRec', 'request': 'RsrcRec', 'extra_info': 'Str'},
         requires=['valid_cpu(request["cpu"])', 'valid_size(request["disk"])', 'valid_size(request["memory"])'],
         ensures=['cpu_val(request["cpu"]) <= limit["cpu"]',
                  'size_val(request["disk"]) <= limit["disk"]',
                  'size_val(request["memory"]) <= limit["memory"]'],
         raises={'InvalidInputError': ['not (cpu_val(request["cpu"]) <= limit["cpu"] and '
                                       'size_val(request["disk"]) <= limit["disk"] and '
                                       'size_val(request["memory"]) <= limit["memory"])']},
         props=['C19'])


# ---------------------------------------------------------------- per-trait accounting
@spec
def has_trait(a, t):
    """t occurs in the reservation's trait list (recursive membership)."""
    return t in a['traits']


@spec
def traits_distinct(a):
    """LDAP multi-valued attributes are sets: no trait is listed twice."""
    return forall(lambda k: implies(0 <= k and k < len(a['traits']),
                                    not in_prefix(a['traits'], k, a['traits'][k])), 'Int')


@spec
def rsrc_val(a, which):
    return cpu_val(a['cpu']) if which == 0 else (size_val(a['disk']) if which == 1 else size_val(a['memory']))


@spec
def used_by_trait(allocs, old_id, n, t, which):
    """Sum over allocs[:n] carrying trait t (old_id excluded) of resource `which`."""
    return sum_range(lambda j, allocs, old_id, t: rsrc_val(allocs[j], which)
                     if (allocs[j]['_id'] != old_id and has_trait(allocs[j], t)) else 0, n, allocs, old_id, t)


@spec
def limit_valid(l):
    return valid_cpu(l['cpu']) and valid_size(l['disk']) and valid_size(l['memory'])


@spec
def limits_ok(limits):
    return (all(limit_valid(l) for l in limits) and
            forall(lambda a, b: implies(0 <= a and a < b and b < len(limits),
                                        limits[a]['trait'] != limits[b]['trait']), 'Int', 'Int'))


contract(M + ':_calc_free_traits',
         types={'limits': 'List[LimitRec]', 'allocs': 'List[AllocRec]', 'old_id': 'Name',
                'return': 'Dict[Name,FreeRec]', 'free': 'Dict[Name,FreeRec]'},
         requires=['limits_ok(limits)', 'allocs_valid(allocs)',
                   'all(traits_distinct(a) for a in allocs)'],
         ensures=['forall(lambda j: implies(0 <= j and j < len(limits), limits[j]["trait"] in result and '
                  ' result[limits[j]["trait"]]["cpu"] == cpu_val(limits[j]["cpu"]) - '
                  '   used_by_trait(allocs, old_id, len(allocs), limits[j]["trait"], 0)), "Int")',
                  'forall(lambda j: implies(0 <= j and j < len(limits), '
                  ' result[limits[j]["trait"]]["disk"] == size_val(limits[j]["disk"]) - '
                  '   used_by_trait(allocs, old_id, len(allocs), limits[j]["trait"], 1)), "Int")',
                  'forall(lambda j: implies(0 <= j and j < len(limits), '
                  ' result[limits[j]["trait"]]["memory"] == size_val(limits[j]["memory"]) - '
                  '   used_by_trait(allocs, old_id, len(allocs), limits[j]["trait"], 2)), "Int")'],
         modifies=['alloc'], props=['C19'])

# loop 0: one fresh record per limit
invariant(M + ':_calc_free_traits', 0, 'for limit in limits',
          ['forall(lambda j: implies(0 <= j and j < _i, limits[j]["trait"] in free and '
           ' not old(alive(free[limits[j]["trait"]])) and '
           ' free[limits[j]["trait"]]["cpu"] == cpu_val(limits[j]["cpu"]) and '
           ' free[limits[j]["trait"]]["disk"] == size_val(limits[j]["disk"]) and '
           ' free[limits[j]["trait"]]["memory"] == size_val(limits[j]["memory"])), "Int")',
           'forall(lambda t: implies(t in free, alive(free[t]) and not old(alive(free[t])) and '
           '   exists(lambda j: 0 <= j and j < _i and limits[j]["trait"] == t, "Int")), "Name")',
           'forall(lambda t, u: implies(t in free and u in free and t != u, free[t] != free[u]), "Name", "Name")'])
# loop 1: reservations processed so far are accounted for every trait in `free`
invariant(M + ':_calc_free_traits', 1, 'for alloc in allocs',
          ['free == at_loop_entry(free)',
           'forall(lambda t: implies(t in free, '
           ' free[t]["cpu"] == at_loop_entry(free[t]["cpu"]) - used_by_trait(allocs, old_id, _i, t, 0) and '
           ' free[t]["disk"] == at_loop_entry(free[t]["disk"]) - used_by_trait(allocs, old_id, _i, t, 1) and '
           ' free[t]["memory"] == at_loop_entry(free[t]["memory"]) - used_by_trait(allocs, old_id, _i, t, 2)), "Name")'])
# loop 2: traits of the current reservation processed so far
invariant(M + ':_calc_free_traits', 2, "for trait in alloc['traits']",
          ['free == at_loop_entry(free)',
           'forall(lambda t: implies(t in free, '
           ' free[t]["cpu"] == at_loop_entry(free[t]["cpu"]) - '
           '    (cpu_val(alloc["cpu"]) if in_prefix(alloc["traits"], _i, t) else 0) and '
           ' free[t]["disk"] == at_loop_entry(free[t]["disk"]) - '
           '    (size_val(alloc["disk"]) if in_prefix(alloc["traits"], _i, t) else 0) and '
           ' free[t]["memory"] == at_loop_entry(free[t]["memory"]) - '
           '    (size_val(alloc["memory"]) if in_prefix(alloc["traits"], _i, t) else 0)), "Name")'])


# ---------------------------------------------------------------- the acceptance check itself
# Dependencies (assumed, DESIGN 3.6): the admin (LDAP) layer returns schema-valid records;
# multi-valued LDAP attributes are sets (no trait listed twice, no two limits for one trait).
# LDAP_allocs / LDAP_part: what the directory holds for this cell and partition at the
# time of the request (ghost constants: the check reads them once each).
ghostvar('LDAP_allocs', 'List[AllocRec]')
ghostvar('LDAP_part', 'PartRec')
cls('AdminCellAlloc', None, {})
contract(M + ':_admin_cell_alloc', types={'return': 'AdminCellAlloc'}, assumed=True, modifies=['alloc'])
contract('lib:AdminCellAlloc.list', types={'$params': ['self', 'filt'], 'return': 'List[AllocRec]'},
         ensures=['result == LDAP_allocs', 'allocs_valid(result)', 'all(traits_distinct(a) for a in result)'],
         modifies=['alloc'], assumed=True)
contract(M + ':_partition_get', types={'partition': 'Name', 'cell': 'Name', 'return': 'PartRec'},
         ensures=['result == LDAP_part',
                  'valid_cpu(result["cpu"])', 'valid_size(result["disk"])', 'valid_size(result["memory"])',
                  'limits_ok(result["limits"])'],
         modifies=['alloc'], assumed=True,
         note='reads LDAP; the NoSuchObjectResult fallback literal is schema-valid')


@spec
def rsrc_has_trait(rsrc, t):
    return rsrc['has_traits'] and t in rsrc['traits']


@spec
def fits_overall(rsrc, part, allocs, old_id):
    return (cpu_val(rsrc['cpu']) <= cpu_val(part['cpu']) - used(allocs, old_id, len(allocs), 0) and
            size_val(rsrc['disk']) <= size_val(part['disk']) - used(allocs, old_id, len(allocs), 1) and
            size_val(rsrc['memory']) <= size_val(part['memory']) - used(allocs, old_id, len(allocs), 2))


@spec
def fits_limit(rsrc, l, allocs, old_id):
    return (cpu_val(rsrc['cpu']) <= cpu_val(l['cpu']) - used_by_trait(allocs, old_id, len(allocs), l['trait'], 0) and
            size_val(rsrc['disk']) <= size_val(l['disk']) - used_by_trait(allocs, old_id, len(allocs), l['trait'], 1) and
            size_val(rsrc['memory']) <= size_val(l['memory']) - used_by_trait(allocs, old_id, len(allocs), l['trait'], 2))


@spec
def fits_all(rsrc, old_id):
    """The property's acceptance condition, over what the directory holds."""
    return (fits_overall(rsrc, LDAP_part, LDAP_allocs, old_id) and
            forall(lambda j: implies(0 <= j and j < len(LDAP_part['limits']) and
                                     rsrc_has_trait(rsrc, LDAP_part['limits'][j]['trait']),
                                     fits_limit(rsrc, LDAP_part['limits'][j], LDAP_allocs, old_id)), 'Int'))


@spec
def old_id_of(allocation, cell):
    return name_of(str_of(allocation) + '/' + str_of(cell))


contract(M + ':_check_capacity',
         types={'cell': 'Name', 'allocation': 'Name', 'rsrc': 'RsrcRec',
                'limits': 'List[LimitRec]', 'free_by_trait': 'Dict[Name,FreeRec]'},
         requires=['valid_cpu(rsrc["cpu"])', 'valid_size(rsrc["disk"])', 'valid_size(rsrc["memory"])'],
         ensures=['fits_all(rsrc, old_id_of(allocation, cell))'],
         raises={'InvalidInputError': ['not fits_all(rsrc, old_id_of(allocation, cell))']},
         modifies=['alloc'], props=['C19'])
invariant(M + ':_check_capacity', 0, 'for limit in limits',
          ['forall(lambda j: implies(0 <= j and j < _i, '
           ' fits_limit(rsrc, limits[j], LDAP_allocs, old_id_of(allocation, cell))), "Int")'])


# ---------------------------------------------------------------- who calls the check: reservation create / update
# The REST handlers are closures of API.__init__ (class _ReservationAPI).  The property is about what is *accepted*:
# the write to the directory must be preceded, on every path, by the acceptance check for the same reservation.
ufunc('rid_alloc', ['Str'], 'Name')       # rsrc_id.rsplit('/', 1) = [allocation, cell]
ufunc('rid_cell', ['Str'], 'Name')
contract('lib:AdminCellAlloc.get', types={'$params': ['self', 'ident', 'dirty'], '$defaults': {'dirty': False},
                                          'return': 'RsrcRec'},
         ensures=['valid_cpu(result["cpu"])', 'valid_size(result["disk"])', 'valid_size(result["memory"])'],
         modifies=['alloc'], assumed=True, note='reads the stored reservation (LDAP): schema-valid')
contract('lib:AdminCellAlloc.update', types={'$params': ['self', 'ident', 'obj']}, modifies=['alloc'], assumed=True,
         note='writes the reservation (LDAP)')
contract('lib:AdminCellAlloc.create', types={'$params': ['self', 'ident', 'obj']}, modifies=['alloc'], assumed=True,
         note='writes the reservation (LDAP)')

contract(M + ':API._ReservationAPI.update',
         types={'rsrc_id': 'Str', 'rsrc': 'RsrcRec', 'allocation': 'Name', 'cell': 'Name', 'return': 'RsrcRec',
                'cell_alloc': 'RsrcRec'},
         requires=['valid_cpu(rsrc["cpu"])', 'valid_size(rsrc["disk"])', 'valid_size(rsrc["memory"])'],
         # rejected (InvalidInputError) or a malformed id (no '/': excluded by the REST schema): nothing is written
         raises={'InvalidInputError': [], 'ValueError': []},
         modifies=['alloc', ('RsrcRec.cpu', 'lambda r: True'), ('RsrcRec.disk', 'lambda r: True'),
                   ('RsrcRec.memory', 'lambda r: True'), ('RsrcRec.partition', 'lambda r: True'),
                   ('RsrcRec.traits', 'lambda r: True'), ('RsrcRec.has_traits', 'lambda r: True'),
                   ('RsrcRec.rank', 'lambda r: True'), ('RsrcRec.has_rank', 'lambda r: True')],
         props=['C19'])
site(M + ':API._ReservationAPI.update', 'AdminCellAlloc.update', ordinal=1, asserts=[
    # the directory write is reached only for a reservation that passed the acceptance check
    'fits_all(rsrc, old_id_of(allocation, cell))',
])


# reservation create: the same clause at AdminCellAlloc.create.  The plugin loop may return another request object; the
# clause speaks about the request that was checked (the parameter as it was when the handler was entered).
cls('ApiPlugin', None, {})
cls('ResvAPI', None, {'_plugins': 'List[ApiPlugin]'})
contract('lib:ApiPlugin.add_attributes', types={'$params': ['self', 'rsrc_id', 'rsrc'], 'return': 'RsrcRec'},
         modifies=['alloc'], assumed=True, note='API plugin: returns the request with attributes added (a new or the same object)')
contract(M + ':API._ReservationAPI.create',
         types={'rsrc_id': 'Str', 'rsrc': 'RsrcRec', 'allocation': 'Name', 'cell': 'Name', 'return': 'RsrcRec',
                '^self': 'ResvAPI', 'plugin': 'ApiPlugin'},
         requires=['valid_cpu(rsrc["cpu"])', 'valid_size(rsrc["disk"])', 'valid_size(rsrc["memory"])'],
         raises={'InvalidInputError': [], 'ValueError': []},
         modifies=['alloc', ('RsrcRec.partition', 'lambda r: True'), ('RsrcRec.rank', 'lambda r: True'),
                   ('RsrcRec.has_rank', 'lambda r: True')],
         props=['C19'])
invariant(M + ':API._ReservationAPI.create', 0, 'for plugin in self._plugins',
          ['fits_all(old(rsrc), old_id_of(allocation, cell))'])
site(M + ':API._ReservationAPI.create', 'AdminCellAlloc.create', ordinal=0, asserts=[
    'fits_all(old(rsrc), old_id_of(allocation, cell))',
])
