"""C14 (part 1) — VipMgr: container IP addresses have exactly one owner.

Abstract view: owner_of(ip) = the target of the symbolic link <base>/<ip> (functional by construction:
one link per name).  Contracts are frame-complete over the file system ghost state.
"""
from pyvc_api import *   # noqa

M = 'treadmill.vipfile'

cls('Cidr', None, {})
ufunc('Cidr_contains', ['Cidr', 'Name'], 'Bool')
cls('VipMgr', M, {'_base_path': 'Name', '_cidr': 'Cidr', '_owner_path': 'Name'})
contract('lib:Cidr.hosts', types={'$params': ['self'], 'return': 'List[Name]'},
         ensures=['forall(lambda j: implies(0 <= j and j < len(result), result[j] in self), "Int")'],
         assumed=True, note='ipaddress.IPv4Network.hosts(): addresses of the network')


@spec
def same_except(d, n):
    """Every file-system entry other than (d, n) is as before."""
    return forall(lambda e, m: implies(not (e == d and m == n),
                                       fs_kind(e, m) == old(fs_kind(e, m)) and fs_target(e, m) == old(fs_target(e, m))),
                  'Int', 'Int')


@spec
def fs_same():
    return forall(lambda e, m: fs_kind(e, m) == old(fs_kind(e, m)) and fs_target(e, m) == old(fs_target(e, m)),
                  'Int', 'Int')


@spec
def dangling(base, n):
    """(in the pre-state) <base>/<n> is a link whose owner file does not exist."""
    return old(fs_kind(base, n)) == 2 and old(fs_kind(fs_target(base, n)[0], fs_target(base, n)[1])) == 0


@spec
def owned_by(mgr, ip, owner):
    return fs_kind(mgr._base_path, ip) == 2 and fs_target(mgr._base_path, ip) == path(mgr._owner_path, owner)


contract(M + ':VipMgr._alloc', types={'owner': 'Name', 'new_ip': 'Name', 'return': 'Bool'},
         ensures=['result == (old(fs_kind(self._base_path, new_ip)) == 0)',       # succeeds iff the address was free
                  'implies(result, owned_by(self, new_ip, owner) and same_except(self._base_path, new_ip))',
                  'implies(not result, fs_same())'],                              # an existing binding is never changed
         modifies=['fs'], props=['C14'])

contract(M + ':VipMgr.alloc', types={'owner': 'Name', 'picked_ip': 'Opt[Name]', 'return': 'Name', 'vip': 'Opt[Name]'},
         ensures=['result in self._cidr',                                        # allocated address lies in the network
                  'old(fs_kind(self._base_path, result)) == 0',                  # it was free
                  'owned_by(self, result, owner)', 'same_except(self._base_path, result)',
                  'implies(picked_ip is not None, result == picked_ip)'],
         raises={'ValueError': ['fs_same()'], 'Exception': ['fs_same()']},
         modifies=['fs'], props=['C14'])
invariant(M + ':VipMgr.alloc', 0, 'for vip in self._cidr.hosts()', ['fs_same()'])

contract(M + ':VipMgr.free', types={'owner': 'Name', 'owned_ip': 'Name'},
         requires=['fs_kind(self._base_path, owned_ip) == 0 or fs_kind(self._base_path, owned_ip) == 2'],
         ensures=[# only the owner can release what it holds
                  'implies(old(owned_by(self, owned_ip, owner)) or '
                  '        (old(fs_kind(self._base_path, owned_ip)) == 2 and '
                  '         old(fs_target(self._base_path, owned_ip))[1] == owner), '
                  '        fs_kind(self._base_path, owned_ip) == 0 and same_except(self._base_path, owned_ip))',
                  'implies(not (old(fs_kind(self._base_path, owned_ip)) == 2 and '
                  '             old(fs_target(self._base_path, owned_ip))[1] == owner), fs_same())'],
         modifies=['fs'], props=['C14'])

contract(M + ':VipMgr.garbage_collect', types={},
         requires=['forall(lambda n: fs_kind(self._base_path, n) == 0 or fs_kind(self._base_path, n) == 2, "Name")',
                   # every binding points into the owners directory (what _alloc creates), which is a different one
                   'forall(lambda n: implies(fs_kind(self._base_path, n) == 2, '
                   '       fs_target(self._base_path, n)[0] == self._owner_path), "Name")',
                   'self._owner_path != self._base_path'],
         ensures=[# reclaims exactly the addresses whose owner no longer exists, and nothing else
                  'forall(lambda n: implies(dangling(self._base_path, n), fs_kind(self._base_path, n) == 0), "Name")',
                  'forall(lambda n: implies(not dangling(self._base_path, n), '
                  '       fs_kind(self._base_path, n) == old(fs_kind(self._base_path, n))), "Name")',
                  'forall(lambda e, m: implies(e != self._base_path, fs_kind(e, m) == old(fs_kind(e, m))), "Int", "Int")',
                  'forall(lambda e, m: fs_target(e, m) == old(fs_target(e, m)), "Int", "Int")'],
         modifies=['fs'], props=['C14'])
invariant(M + ':VipMgr.garbage_collect', 0, 'for vip in os.listdir(self._base_path)',
          ['forall(lambda n: implies(_pos(n) < _i and dangling(self._base_path, n), '
           '       fs_kind(self._base_path, n) == 0), "Name", pat=fs_kind(self._base_path, n))',
           'forall(lambda n: implies(not (_pos(n) < _i and dangling(self._base_path, n)), '
           '       fs_kind(self._base_path, n) == old(fs_kind(self._base_path, n))), "Name", '
           '       pat=fs_kind(self._base_path, n))',
           'forall(lambda e, m: implies(e != self._base_path, fs_kind(e, m) == old(fs_kind(e, m))), "Int", "Int")',
           'forall(lambda e, m: fs_target(e, m) == old(fs_target(e, m)), "Int", "Int")'])
