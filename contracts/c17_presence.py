"""C17 - presence registration never touches nodes owned by another session (request-granular).

Functions under contract: PresenceResourceService._safe_create, _safe_delete, on_create_request,
on_delete_request (treadmill.services.presence_service).

Ghost state: a writable ZooKeeper store - zk_exists(path), zk_owner(path) (the session that owns an ephemeral
node, 0 for a persistent one), zk_content(path) - changed only through the dependency contracts of
zkutils.create / update / ensure_deleted below.  Every clause is stated for an ARBITRARY store at the start of the
request, so whatever another session did (or a session expiry removed) between two requests is covered; what is
not covered is another session acting between the read and the write inside one request (stated as assumption).
"""
from pyvc_api import *   # noqa

M = 'treadmill.services.presence_service'
P = M + ':PresenceResourceService'

cls('KazooClient', None, {'client_id': 'Tuple[Int,Int]'})          # (session id, password)
cls('ZnodeStat', None, {'owner_session_id': 'Int'})
cls('Endpoint', None, {'port': 'Int', 'name': 'Str', 'has_name': 'Bool', 'real_port': 'Int',
                       'proto': 'Str', 'has_proto': 'Bool'}, record=True)
cls('PresenceReq', None, {'endpoints': 'List[Endpoint]', 'has_endpoints': 'Bool',
                          'identity_group': 'Opt[Str]', 'has_identity_group': 'Bool',
                          'identity': 'Int', 'has_identity': 'Bool'}, record=True)
cls('PresenceResourceService', M, {'hostname': 'Str', 'presence': 'DefaultDict[Str,Dict[Str,Str]]'})
ghostvar('ZKCLIENT', 'KazooClient')

opaque('treadmill.zknamespace.path')


@spec
def me():
    """This service's ZooKeeper session."""
    return ZKCLIENT.client_id[0]


@spec
def zk_same(p):
    return ((not zk_exists(p) and not old(zk_exists(p))) or
            (zk_exists(p) and old(zk_exists(p)) and zk_owner(p) == old(zk_owner(p)) and
             zk_content(p) == old(zk_content(p))))


@spec
def gone_or_same(p):
    """Between the calls of one request a node may go away (owner deleted it / session expired): unchanged or gone."""
    return (not zk_exists(p) and old(zk_exists(p))) or zk_same(p)


@spec
def others_same(path):
    return forall(lambda p: implies(p != path, gone_or_same(p)), 'Str')


@spec
def foreign_untouched():
    """C17: a node that exists and is owned by another session is not modified; it may go away by itself (its owner
    deleted it, its session expired) and only then be replaced by a node of this session.  That this service does not
    delete it is the call-site clause delete_own_only."""
    return forall(lambda p: implies(old(zk_exists(p)) and old(zk_owner(p)) != me(),
                                    gone_or_same(p) or (zk_exists(p) and zk_owner(p) == me())), 'Str')


# ------------------------------------------------------------------ dependency contracts (assumed)
contract(P + '.zkclient', types={'return': 'KazooClient'}, ensures=['result == ZKCLIENT'], assumed=True,
         note='property returning the process-wide kazoo client (context.GLOBAL.zk.conn); the session id is positive')
contract('lib:KazooClient.make_servers_acl', types={'$params': ['self'], 'return': 'Int'}, assumed=True)
contract('treadmill.appcfg:app_name', types={'uniquename': 'Str', 'return': 'Str'}, assumed=True,
         ensures=['result == str_fn("app_name", uniquename)'], note='instance name of a container: a function of its unique name')
contract('treadmill.zkutils:create',
         types={'zkclient': 'KazooClient', 'path': 'Str', 'data': 'Any', 'acl': 'Any', 'sequence': 'Bool',
                'default_acl': 'Bool', 'ephemeral': 'Bool', 'return': 'Str'},
         raises={'NodeExistsError': ['old(zk_exists(path))', 'forall(lambda p: zk_same(p), "Str")']},
         ensures=['not old(zk_exists(path))', 'zk_exists(path)', 'zk_content(path) == data',
                  'zk_owner(path) == (zkclient.client_id[0] if ephemeral else 0)', 'others_same(path)'],
         modifies=['zk', 'zk_env'], assumed=True,
         note='kazoo create: fails with NodeExistsError iff the node exists; an ephemeral node belongs to the '
              'creating session')
contract('treadmill.zkutils:get_with_metadata',
         types={'zkclient': 'KazooClient', 'path': 'Str', 'return': 'Tuple[Any,ZnodeStat]'},
         raises={'NoNodeError': ['not zk_exists(path)', 'forall(lambda p: zk_same(p), "Str")']},
         ensures=['zk_exists(path)', 'result[0] == zk_content(path)', 'result[1].owner_session_id == zk_owner(path)',
                  'forall(lambda p: zk_same(p), "Str")'],
         modifies=['alloc', 'zk', 'zk_env'], assumed=True, note='read; NoNodeError exactly when the node is absent')
contract('treadmill.zkutils:update',
         types={'zkclient': 'KazooClient', 'path': 'Str', 'data': 'Any', 'return': 'Any'},
         raises={'NoNodeError': ['not old(zk_exists(path))', 'forall(lambda p: zk_same(p), "Str")']},
         ensures=['old(zk_exists(path))', 'zk_exists(path)', 'zk_content(path) == data',
                  'zk_owner(path) == old(zk_owner(path))', 'others_same(path)'],
         modifies=['zk', 'zk_env'], assumed=True, note='kazoo set: changes the content only')
contract('treadmill.zkutils:ensure_deleted',
         types={'zkclient': 'KazooClient', 'path': 'Str', 'recursive': 'Bool'},
         ensures=['not zk_exists(path)', 'others_same(path)'],
         modifies=['zk', 'zk_env'], assumed=True, note='delete, absent node tolerated')
contract(P + '._watch', types={'rsrc_id': 'Str', 'path': 'Str'}, assumed=True,
         note='installs a DataWatch that re-queues the request when the node goes away; no effect on the store')
contract('lib:PresenceResourceService.retry_request', types={'$params': ['self', 'rsrc_id']},
         assumed=True, note='inherited from BaseResourceServiceImpl: re-queues the request; no effect on the store')

# call-site clauses: what the service asks ZooKeeper to do
site(P + '._safe_create', 'create', asserts=[
    ('C17', 'arg_ephemeral', 'ephemeral_node')])
site(P + '._safe_create', 'update', asserts=[
    ('C17', 'not (zk_exists(path) and zk_owner(path) != me())', 'update_own_only')])
site(P + '._safe_delete', 'ensure_deleted', asserts=[
    ('C17', 'not (zk_exists(path) and zk_owner(path) != me())', 'delete_own_only')])

# the same two clauses wherever else the service might reach the write primitives (going away "by itself" cannot be told
# from a deletion in a two-state postcondition, so deletions are pinned at their call sites)
for _caller in ('.on_delete_request', '.on_create_request', '._safe_create'):
    site(P + _caller, 'ensure_deleted', asserts=[
        ('C17', 'not (zk_exists(arg_path) and zk_owner(arg_path) != me())', 'delete_own_only')])
for _caller in ('.on_delete_request', '.on_create_request', '._safe_delete'):
    site(P + _caller, 'update', asserts=[
        ('C17', 'not (zk_exists(arg_path) and zk_owner(arg_path) != me())', 'update_own_only')])
    site(P + _caller, 'create', asserts=[('C17', 'arg_ephemeral', 'ephemeral_node')])

# ------------------------------------------------------------------ the two guarded primitives
GONE_RAISE = {'NoNodeError': [('C17', 'foreign_untouched()'),
                              ('C17', 'forall(lambda p: implies(not gone_or_same(p), zk_exists(p) and zk_owner(p) == me()), "Str")')]}
contract(P + '._safe_create', types={'rsrc_id': 'Str', 'path': 'Str', 'data': 'Any', 'return': 'Bool'},
         requires=['me() > 0'],
         # the node can go away between the read and the update: kazoo's NoNodeError escapes and the request fails
         raises=GONE_RAISE,
         ensures=[('C17', 'foreign_untouched()', 'foreign_untouched'),
                  # success: the node is there, ephemeral, ours, with the requested content
                  ('C17', 'implies(result, zk_exists(path) and zk_owner(path) == me() and zk_content(path) == data)',
                   'registered_own'),
                  # failure: somebody else's node is in the way (or it vanished meanwhile); nothing was changed
                  ('C17', 'implies(not result, forall(lambda p: gone_or_same(p), "Str"))', 'failed_nothing'),
                  ('C17', 'others_same(path)', 'only_this_path')],
         modifies=['zk', 'alloc'], props=['C17'])
contract(P + '._safe_delete', types={'path': 'Str'},
         requires=['me() > 0'],
         ensures=[('C17', 'foreign_untouched()', 'foreign_untouched'),
                  ('C17', 'implies(old(zk_exists(path)) and old(zk_owner(path)) == me(), not zk_exists(path))',
                   'own_deleted'),
                  # a removal never creates or rewrites anything
                  ('C17', 'forall(lambda p: gone_or_same(p), "Str")', 'nothing_written'),
                  ('C17', 'others_same(path)', 'only_this_path')],
         modifies=['zk', 'alloc'], props=['C17'])


# ------------------------------------------------------------------ requests
@spec
def rec(self, a, p):
    """p is recorded as registered for instance a (a missing instance has no records)."""
    return a in self.presence and p in self.presence[a]


@spec
def ep_path(app, e):
    """The endpoint node of one endpoint record (as on_create_request builds it)."""
    return zk_path("endpoint", app, e.get("proto", "tcp"), e.get("name", str(e["port"])))


@spec
def attributed(self, app, p, r):
    return rec(self, app, p) and self.presence[app][p] == r


@spec
def was_for(self, a, p, r):
    """At the start of the request p was recorded for instance a on behalf of container r."""
    return old(rec(self, a, p)) and old(self.presence[a][p]) == r


contract(P + '.on_delete_request', types={'rsrc_id': 'Str', 'return': 'Bool', 'to_delete': 'List[Str]',
                                          'app_name': 'Str'},
         requires=['me() > 0'],
         ensures=[('C17', 'foreign_untouched()', 'foreign_untouched'),
                  ('C17', 'forall(lambda p: gone_or_same(p), "Str")', 'nothing_written'),
                  # only nodes registered for THIS container are removed: the clean-up of an old container never
                  # unregisters a newer one of the same instance
                  ('C17', 'forall(lambda p: implies(not was_for(self, str_fn("app_name", rsrc_id), p, rsrc_id), gone_or_same(p)), '
                          '       "Str")', 'only_registered_for_this'),
                  ('C17', 'forall(lambda a, p: implies(old(rec(self, a, p)) and '
                          '       not (a == str_fn("app_name", rsrc_id) and old(self.presence[a][p]) == rsrc_id), '
                          '       rec(self, a, p) and self.presence[a][p] == old(self.presence[a][p])), "Str", "Str")',
                   'others_kept'),
                  ('C17', 'forall(lambda a, p: implies(rec(self, a, p), old(rec(self, a, p)) and '
                          '       not (a == str_fn("app_name", rsrc_id) and old(self.presence[a][p]) == rsrc_id)), '
                          '       "Str", "Str")', 'this_forgotten')],
         modifies=['zk', 'alloc', 'self.presence'], props=['C17'])
invariant(P + '.on_delete_request', 0, 'for path in to_delete',
          [('C17', 'forall(lambda p: gone_or_same(p), "Str")'),
           ('C17', 'forall(lambda p: implies(not was_for(self, app_name, p, rsrc_id), gone_or_same(p)), "Str")'),
           'app_name == str_fn("app_name", rsrc_id)',
           'forall(lambda j: implies(0 <= j and j < len(to_delete), was_for(self, app_name, to_delete[j], rsrc_id)), "Int")',
           'forall(lambda i, j: implies(0 <= i and i < j and j < len(to_delete), to_delete[i] != to_delete[j]), "Int", "Int")',
           'forall(lambda p: implies(was_for(self, app_name, p, rsrc_id), '
           '       exists(lambda j: 0 <= j and j < len(to_delete) and to_delete[j] == p, "Int")), "Str")',
           'forall(lambda a: implies(a != app_name, (a in self.presence) == (a in old(self.presence)) and '
           '       self.presence[a] == old(self.presence[a])), "Str")',
           'app_name in self.presence',
           'forall(lambda p: (p in self.presence[app_name]) == (old(rec(self, app_name, p)) and '
           '       not (old(self.presence[app_name][p]) == rsrc_id and '
           '            exists(lambda j: 0 <= j and j < _i and to_delete[j] == p, "Int"))), "Str")',
           'forall(lambda p: implies(p in self.presence[app_name], self.presence[app_name][p] == '
           '       old(self.presence[app_name][p])), "Str")'])

contract(P + '.on_create_request', types={'rsrc_id': 'Str', 'rsrc_data': 'PresenceReq', 'return': 'Opt[Dict[Str,Str]]',
                                          'app_name': 'Str'},
         requires=['me() > 0'], raises=GONE_RAISE,
         ensures=[('C17', 'foreign_untouched()', 'foreign_untouched'),
                  # every node recorded for this container by this request is an ephemeral node of this session
                  ('C17', 'forall(lambda p: implies(rec(self, str_fn("app_name", rsrc_id), p) and '
                          '       not old(rec(self, str_fn("app_name", rsrc_id), p)), '
                          '       (not zk_exists(p) or zk_owner(p) == me()) and '
                          '       self.presence[str_fn("app_name", rsrc_id)][p] == rsrc_id), "Str")', 'recorded_are_own'),
                  # the running node of a successfully registered container is attributed to THIS container (also when
                  # an older container of the same instance was recorded for it): the clean-up of the old one must not
                  # find it under its own id
                  ('C17', 'implies(result is not None, rec(self, str_fn("app_name", rsrc_id), '
                          '        zk_path("running", str_fn("app_name", rsrc_id))) and '
                          '        self.presence[str_fn("app_name", rsrc_id)][zk_path("running", str_fn("app_name", rsrc_id))] '
                          '        == rsrc_id)', 'running_attributed'),
                  ('C17', 'implies(result is not None and "endpoints" in rsrc_data, forall(lambda j: implies(0 <= j and j < len(rsrc_data["endpoints"]), '
                          '        attributed(self, str_fn("app_name", rsrc_id), '
                          '                   ep_path(str_fn("app_name", rsrc_id), rsrc_data["endpoints"][j]), rsrc_id)), "Int"))',
                   'endpoints_attributed'),
                  # every path recorded for the instance that this request (re)registered is attributed to this container:
                  # no record of this instance names another container for a node this request made its own
                  ('C17', 'forall(lambda p: implies(rec(self, str_fn("app_name", rsrc_id), p) and '
                          '       self.presence[str_fn("app_name", rsrc_id)][p] != rsrc_id, '
                          '       old(rec(self, str_fn("app_name", rsrc_id), p)) and '
                          '       self.presence[str_fn("app_name", rsrc_id)][p] == old(self.presence[str_fn("app_name", rsrc_id)][p]) '
                          '       and gone_or_same(p)), "Str")', 'foreign_records_untouched'),
                  # whatever this request changed in the store is now a node of this session
                  ('C17', 'forall(lambda p: implies(not gone_or_same(p), zk_exists(p) and zk_owner(p) == me()), "Str")',
                   'changes_are_own'),
                  # records of other instances are not touched
                  ('C17', 'forall(lambda a: implies(a != str_fn("app_name", rsrc_id), (a in self.presence) == '
                          '       (a in old(self.presence)) and self.presence[a] == old(self.presence[a])), "Str")',
                   'other_instances_kept')],
         modifies=['zk', 'alloc', 'self.presence'], props=['C17'])
invariant(P + '.on_create_request', 0, "for endpoint in rsrc_data.get('endpoints', [])",
          [('C17', 'foreign_untouched()'),
           'app_name == str_fn("app_name", rsrc_id)',
           ('C17', 'forall(lambda p: implies(rec(self, app_name, p) and not old(rec(self, app_name, p)), '
                   '       (not zk_exists(p) or zk_owner(p) == me()) and self.presence[app_name][p] == rsrc_id), "Str")'),
           ('C17', 'forall(lambda p: implies(not gone_or_same(p), zk_exists(p) and zk_owner(p) == me()), "Str")'),
           ('C17', 'rec(self, app_name, zk_path("running", app_name)) and '
                   'self.presence[app_name][zk_path("running", app_name)] == rsrc_id'),
           ('C17', 'forall(lambda j: implies(0 <= j and j < _i, attributed(self, app_name, ep_path(app_name, _seq[j]), rsrc_id)), '
                   '       "Int")'),
           ('C17', 'forall(lambda p: implies(rec(self, app_name, p) and self.presence[app_name][p] != rsrc_id, '
                   '       old(rec(self, app_name, p)) and self.presence[app_name][p] == old(self.presence[app_name][p]) '
                   '       and gone_or_same(p)), "Str")'),
           ('C17', 'forall(lambda a: implies(a != app_name, (a in self.presence) == (a in old(self.presence)) and '
                   '       self.presence[a] == old(self.presence[a])), "Str")')])
