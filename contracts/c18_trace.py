"""C18 - archiving trace history never loses or prematurely archives events.

Functions under contract: treadmill.trace._zk: upload_batch, download_batch, cleanup;
treadmill.trace.app.zk: cleanup_trace, cleanup_finished (cleanup_trace_history / cleanup_finished_history are
one-line callers of _zk.cleanup and are inlined).

Ghost state: the writable ZooKeeper store of engine_fs (zk_exists / zk_content per path).  Paths are built with the
uninterpreted child-path function cp(parent, name) ('/'.join of components that contain no '/': injective, and a
root constant is never a child path - axioms below).  A snapshot is an opaque content token c with snap_rows(c): the
rows of the sqlite table it holds (dependency contracts of tempfile / sqlite3 / zlib below).

Crash points: the store changes only inside zkutils.create / ensure_deleted (atomic in ZooKeeper).  The safety
invariant of an archiving run is asserted (call-site clause) in the state before EVERY such call and at the exit of
each function; since nothing else writes, every state a crash can leave behind is one of those states.
"""
from pyvc_api import *   # noqa

T = 'treadmill.trace._zk'
A = 'treadmill.trace.app.zk'

ROW = 'Tuple[Str,Real,Any,Str,Str]'          # (path, timestamp, data, directory, name)

cls('KazooClient', None, {})
cls('ZnodeStat', None, {'last_modified': 'Real'})
cls('TempFile', None, {'name': 'Path', 'db_table': 'Str', 'db': 'List[%s]' % ROW, 'content': 'Any'}, ctx=True)   # db*, content: ghost
cls('BinFile', None, {'name': 'Path'}, ctx=True)
cls('SqlConn', None, {'file': 'Path'}, ctx=True)
const('exc_parent:NoNodeError', 'KazooException')
const('exc_parent:NodeExistsError', 'KazooException')
const('exc_parent:ConnectionLoss', 'KazooException')

ufunc('cp', ['Str', 'Str'], 'Str')                       # child path
ufunc('seq_name', ['Str', 'Int'], 'Str')                 # name of a sequence node: prefix + 10-digit counter
ufunc('snap_len', ['Any'], 'Int')                        # rows of a snapshot (content token)
ufunc('snap_path', ['Any', 'Int'], 'Str')
ufunc('snap_name', ['Any', 'Int'], 'Str')
ufunc('snap_table', ['Any'], 'Str')
ufunc('snap_data', ['Any', 'Int'], 'Any')
ufunc('any_decode', ['Any'], 'Any')
ufunc('zdec', ['Any'], 'Any')                            # zlib.decompress
ufunc('file_of', ['Path'], 'TempFile')                   # the temporary file object created under a name

ufunc('cp_parent', ['Str'], 'Str')
ufunc('cp_name', ['Str'], 'Str')
axiom('cp-injective',
      'forall(lambda a, b: cp_parent(cp(a, b)) == a and cp_name(cp(a, b)) == b, "Str", "Str", pat=cp(a, b))',
      note="'/'.join of znode names (which cannot contain '/') is injective: parent and name are functions of the path")

opaque('treadmill.zknamespace.path')


@spec
def zk_same(p):
    return (zk_exists(p) == old(zk_exists(p))) and zk_content(p) == old(zk_content(p))


@spec
def others_same(path):
    return forall(lambda p: implies(p != path, zk_same(p)), 'Str')


@spec
def all_same():
    return forall(lambda p: zk_same(p), 'Str')


@spec
def in_list(L, x):
    return exists(lambda j: 0 <= j and j < len(L) and L[j] == x, 'Int')


# ------------------------------------------------------------------ dependency contracts (assumed)
contract('lib:KazooClient.get_children', types={'$params': ['self', 'path'], 'path': 'Str', 'return': 'List[Str]'},
         raises={'NoNodeError': ['not zk_exists(path)', 'all_same()']},
         ensures=['forall(lambda n: in_list(result, n) == zk_exists(cp(path, n)), "Str")',
                  'forall(lambda n: (n in result) == zk_exists(cp(path, n)), "Str")',
                  'forall(lambda i, j: implies(0 <= i and i < j and j < len(result), result[i] != result[j]), "Int", "Int")',
                  'all_same()'],
         modifies=['alloc'], assumed=True,
         note='kazoo get_children: the names n for which the node <path>/<n> exists, each once; read only')
contract('treadmill.zkutils:ensure_deleted',
         types={'zkclient': 'KazooClient', 'path': 'Str', 'recursive': 'Bool'},
         ensures=['not zk_exists(path)', 'others_same(path)'],
         modifies=['zk'], assumed=True, note='delete, absent node tolerated; atomic')

contract('treadmill.zkutils:create',
         types={'zkclient': 'KazooClient', 'path': 'Str', 'data': 'Any', 'acl': 'Any', 'sequence': 'Bool',
                'default_acl': 'Bool', 'ephemeral': 'Bool', 'return': 'Str'},
         requires=['sequence'],
         raises={'KazooException': ['all_same()']},
         ensures=['not old(zk_exists(result))', 'zk_exists(result)', 'zk_content(result) == data',
                  'cp_parent(result) == cp_parent(path)', 'result == cp(cp_parent(path), cp_name(result))',
                  'others_same(result)'],
         modifies=['zk'], assumed=True,
         note='kazoo create(sequence=True): a NEW node next to `path` (same parent, name = prefix + counter) holding '
              'the data; atomic; may fail (connection loss, payload too large) leaving the store unchanged')
contract('lib:tempfile.NamedTemporaryFile', types={'$params': [], 'return': 'TempFile'},
         ensures=['not old(alive(result))', 'file_of(result.name) == result', 'len(result.db) == 0', 'fs_kind(result.name) == 1'],
         modifies=['alloc', 'fs'], assumed=True, note='a new empty regular file (delete=False)')
contract('lib:sqlite3.connect', types={'$params': ['name'], 'name': 'Path', 'return': 'SqlConn'},
         ensures=['result.file == name'], modifies=['alloc'], assumed=True, note='opens the database file')
contract('lib:SqlConn.executemany', types={'$params': ['self', 'sql', 'rows'], 'sql': 'Str', 'rows': 'List[%s]' % ROW},
         ensures=['file_of(self.file).db == old(file_of(self.file).db) + rows'],
         modifies=['file_of(self.file).db'], assumed=True,
         note='INSERT ... VALUES(?, ?, ?, ?, ?) over the sequence: appends exactly the given rows (the SQL text is not '
              'interpreted: table and column order are read off the source)')
ufunc('sel_match', ['Str', 'Str'], 'Bool')     # the row name satisfies the WHERE clause of the statement text
contract('lib:SqlConn.execute', types={'$params': ['self', 'sql'], 'sql': 'Str', 'return': 'List[Tuple[Str]]'},
         ensures=['forall(lambda x: exists(lambda i: 0 <= i and i < len(result) and result[i][0] == x, "Int") == '
                  '       exists(lambda j: 0 <= j and j < snap_len(file_of(self.file).content) and '
                  '              snap_name(file_of(self.file).content, j) == x and sel_match(sql, x), "Int"), "Str")'],
         modifies=['alloc'], assumed=True,
         note='CREATE TABLE: no rows change.  SELECT name ... WHERE name GLOB <pattern> on a database file written from '
              'bytes: the name column of exactly the rows the statement selects (sel_match(statement text, name): the SQL '
              'text is not interpreted)')
contract('lib:TempFile.write', types={'$params': ['self', 'data'], 'data': 'Any'},
         ensures=['self.content == data'], modifies=['self.content'], assumed=True, note='the file holds the bytes written')
contract('lib:zlib.decompress', types={'$params': ['data'], 'data': 'Any', 'return': 'Any'},
         ensures=['result == zdec(data)'], assumed=True)
contract('lib:SqlConn.executescript', types={'$params': ['self', 'sql'], 'sql': 'Str'}, assumed=True,
         note='CREATE INDEX: no rows change')
contract('lib:SqlConn.close', types={'$params': ['self']}, assumed=True)
contract('lib:io.open', types={'$params': ['name', 'mode'], 'name': 'Path', 'mode': 'Str', 'return': 'BinFile'},
         ensures=['result.name == name'], modifies=['alloc'], assumed=True)
contract('lib:BinFile.read', types={'$params': ['self'], 'return': 'Any'},
         ensures=['snap_len(result) == len(file_of(self.name).db)',
                  'forall(lambda j: implies(0 <= j and j < len(file_of(self.name).db), '
                  '       snap_path(result, j) == file_of(self.name).db[j][0] and '
                  '       snap_name(result, j) == file_of(self.name).db[j][4] and '
                  '       snap_data(result, j) == file_of(self.name).db[j][2]), "Int")'],
         assumed=True, note='the bytes of the sqlite file: a token whose rows are the rows inserted')
contract('lib:zlib.compress', types={'$params': ['data'], 'data': 'Any', 'return': 'Any'},
         ensures=['zdec(result) == data'], assumed=True, note='decompress(compress(x)) == x')


@spec
def snap_has(c, p):
    """The snapshot with (compressed) content c holds a row for the node path p."""
    return exists(lambda j: 0 <= j and j < snap_len(zdec(c)) and snap_path(zdec(c), j) == p, 'Int')


@spec
def covers(node, batch):
    """`node` is a live snapshot holding one row per element of batch, in order (path and name columns)."""
    return (zk_exists(node) and snap_len(zdec(zk_content(node))) == len(batch) and
            forall(lambda j: implies(0 <= j and j < len(batch),
                                     snap_path(zdec(zk_content(node)), j) == batch[j][0] and
                                     snap_name(zdec(zk_content(node)), j) == batch[j][4] and
                                     snap_data(zdec(zk_content(node)), j) == batch[j][2]), 'Int'))


# ------------------------------------------------------------------ _zk.upload_batch: snapshot first, then delete
# crash safety: a node is deleted only when a live snapshot holds it (state before every delete)
site(T + ':upload_batch', 'ensure_deleted', asserts=[
    ('C18', 'covers(db_node, batch) and db_node != arg_path and in_paths(batch, arg_path)', 'delete_only_archived')])


@spec
def in_paths(batch, p):
    return exists(lambda j: 0 <= j and j < len(batch) and batch[j][0] == p, 'Int')


contract(T + ':upload_batch',
         types={'zkclient': 'KazooClient', 'db_node_path': 'Str', 'table': 'Str', 'batch': 'List[%s]' % ROW,
                'db_node': 'Str'},
         # the nodes to archive are not siblings of the snapshot node (they live under /trace/<shard> or /finished)
         requires=['forall(lambda j: implies(0 <= j and j < len(batch), cp_parent(batch[j][0]) != cp_parent(db_node_path)), "Int")'],
         # a failure (upload or a delete) leaves every node of the batch either live and unchanged or archived
         raises={'KazooException': [
             ('C18', 'forall(lambda p: zk_same(p) or (in_paths(batch, p) and not zk_exists(p) and '
                     '       exists(lambda q: not old(zk_exists(q)) and covers(q, batch) and '
                     '              cp_parent(q) == cp_parent(db_node_path), "Str")) or '
                     '       (not old(zk_exists(p)) and zk_exists(p) and cp_parent(p) == cp_parent(db_node_path)), "Str")',
              'failed_safe')]},
         ensures=[('C18', 'not old(zk_exists(D)) and covers(D, batch) and cp_parent(D) == cp_parent(db_node_path)',
                   'snapshot_uploaded'),
                  ('C18', 'forall(lambda j: implies(0 <= j and j < len(batch), not zk_exists(batch[j][0])), "Int")',
                   'batch_deleted'),
                  ('C18', 'forall(lambda p: implies(p != D and not in_paths(batch, p), zk_same(p)), "Str")',
                   'nothing_else')],
         ghost_out={'D': ('Str', 'db_node')},
         modifies=['zk', 'fs', 'alloc'], props=['C18'])
invariant(T + ':upload_batch', 0, 'for (path, _timestamp, _data, _directory, _name) in batch',
          [('C18', 'not old(zk_exists(db_node)) and covers(db_node, batch) and cp_parent(db_node) == cp_parent(db_node_path)'),
           ('C18', 'forall(lambda j: implies(0 <= j and j < _i, not zk_exists(batch[j][0])), "Int")'),
           ('C18', 'forall(lambda p: implies(p != db_node and not exists(lambda j: 0 <= j and j < _i and batch[j][0] == p, "Int"), '
                   '       zk_same(p)), "Str")')])


# ------------------------------------------------------------------ _zk.cleanup: pruning keeps the newest
contract(T + ':cleanup', types={'zkclient': 'KazooClient', 'path': 'Str', 'max_count': 'Int', 'nodes': 'List[Str]'},
         requires=['max_count >= 0'],
         raises={'NoNodeError': ['all_same()']},
         ensures=[# N: the children in ascending order of their names (sequence numbers are zero padded)
                  ('C18', 'forall(lambda n: in_list(N, n) == old(zk_exists(cp(path, n))), "Str")', 'lists_children'),
                  ('C18', 'forall(lambda i, j: implies(0 <= i and i < j and j < len(N), N[i] <= N[j]), "Int", "Int")',
                   'ascending'),
                  # exactly the max_count newest survive (all of them if there are no more than max_count)
                  ('C18', 'forall(lambda j: implies(0 <= j and j < len(N), '
                          '       zk_exists(cp(path, N[j])) == (j >= len(N) - max_count)), "Int")', 'newest_kept'),
                  ('C18', 'forall(lambda j: implies(0 <= j and j < len(N) and j >= len(N) - max_count, '
                          '       zk_same(cp(path, N[j]))), "Int")', 'kept_unchanged'),
                  ('C18', 'forall(lambda p: implies(not (cp_parent(p) == path and in_list(N, cp_name(p)) and p == cp(path, cp_name(p))), zk_same(p)), "Str")',
                   'nothing_else')],
         ghost_out={'N': ('List[Str]', 'nodes')},
         modifies=['zk', 'alloc'], props=['C18'])
invariant(T + ':cleanup', 0, 'for node in nodes[0:extra]',
          ['extra == len(nodes) - max_count and extra > 0',
           ('C18', 'forall(lambda j: implies(0 <= j and j < _i, not zk_exists(cp(path, nodes[j]))), "Int")'),
           ('C18', 'forall(lambda p: implies(not exists(lambda j: 0 <= j and j < _i and p == cp(path, nodes[j]), "Int"), '
                   '       zk_same(p)), "Str")')])


# ------------------------------------------------------------------ app.zk.cleanup_trace
TR = 'Tuple[Real,Str,Str]'       # (timestamp, shard, event)


@spec
def ev_path(shard, event):
    return cp(cp('/trace', shard), event)


@spec
def ev_instance(event):
    return split_part(event, ',', 2, 0)


@spec
def ev_time(event):
    return str_to_real(split_part(event, ',', 2, 1))


contract(A + ':cleanup_trace',
         types={'zkclient': 'KazooClient', 'batch_size': 'Int', 'expires_after': 'Real',
                'scheduled': 'List[Str]', 'shards': 'List[Str]', 'traces': 'List[%s]' % TR, 'num_events': 'Int',
                'events': 'List[Str]', 'uploaded_events': 'Int', 'batch': 'List[%s]' % TR, 'db_rows': 'List[%s]' % ROW},
         requires=['batch_size >= 1'],
         raises={'KazooException': [('C18', 'lossless()', 'lossless_on_failure'),
                                    ('C18', 'only_expired(zkclient, expires_after)', 'only_expired_on_failure')],
                 'ValueError': ['all_same()']},
         ensures=[('C18', 'lossless()', 'lossless'),
                  ('C18', 'only_expired(zkclient, expires_after)', 'only_expired')],
         modifies=['zk', 'fs', 'alloc', 'clock'], props=['C18'])


@spec
def archived(p):
    """Some live snapshot in the trace history holds the node p."""
    return exists(lambda q: zk_exists(q) and cp_parent(q) == '/trace.history' and snap_has(zk_content(q), p), 'Str')


@spec
def lossless():
    """Every node that existed beforehand is still live and unchanged, or is held by a live snapshot; snapshots that
    existed beforehand are still there."""
    return forall(lambda p: implies(old(zk_exists(p)), zk_same(p) or archived(p)), 'Str')


@spec
def only_expired(zkclient, expires_after):
    """Only trace events of instances that were not scheduled, older than the expiry, leave the live trace."""
    return forall(lambda s, e: implies(old(zk_exists(ev_path(s, e))) and not zk_exists(ev_path(s, e)),
                                       not old(zk_exists(cp('/scheduled', ev_instance(e)))) and
                                       ev_time(e) < clock_now() - expires_after), 'Str', 'Str')


axiom('trace-shard-not-history', 'forall(lambda s: cp("/trace", s) != "/trace.history", "Str", pat=cp("/trace", s))',
      note="'/trace/<shard>' is not the string '/trace.history'")


@spec
def tw(traces, expires_after):
    """Every selected entry is an event of an instance that was not scheduled, older than the expiry."""
    return forall(lambda j: implies(0 <= j and j < len(traces),
                                    not old(zk_exists(cp('/scheduled', ev_instance(traces[j][2])))) and
                                    traces[j][0] == ev_time(traces[j][2]) and
                                    traces[j][0] < clock_now() - expires_after), 'Int')


@spec
def only_selected(traces):
    """Whatever changed is a selected event node or a new snapshot."""
    return forall(lambda p: zk_same(p) or
                  exists(lambda j: 0 <= j and j < len(traces) and p == ev_path(traces[j][1], traces[j][2]), 'Int') or
                  (not old(zk_exists(p)) and cp_parent(p) == '/trace.history'), 'Str')


invariant(A + ':cleanup_trace', 0, 'for shard in shards',
          ['all_same()', 'batch_size >= 1',
           'forall(lambda n: (n in scheduled) == old(zk_exists(cp("/scheduled", n))), "Str")',
           ('C18', 'tw(traces, expires_after)')])
invariant(A + ':cleanup_trace', 1, 'for event in events',
          ['all_same()', 'batch_size >= 1',
           'forall(lambda n: (n in scheduled) == old(zk_exists(cp("/scheduled", n))), "Str")',
           ('C18', 'tw(traces, expires_after)')])
invariant(A + ':cleanup_trace', 2, 'for idx in range(0, len(traces), batch_size)',
          ['batch_size >= 1',
           ('C18', 'tw(traces, expires_after)'),
           ('C18', 'lossless()'),
           ('C18', 'only_selected(traces)')])


# ------------------------------------------------------------------ app.zk.cleanup_finished
contract('lib:KazooClient.get', types={'$params': ['self', 'path'], 'path': 'Str', 'return': 'Tuple[Opt[Any],ZnodeStat]'},
         raises={'NoNodeError': ['not zk_exists(path)', 'all_same()']},
         ensures=['zk_exists(path)', 'implies(result[0] is not None, result[0] == zk_content(path))',
                  '(result[0] is None) == (zk_content(path) == None)',
                  'result[1].last_modified == zk_mtime(path)', 'all_same()'],
         modifies=['alloc'], assumed=True, note='kazoo get: payload bytes (None for an empty node) and the stat; read only')
ufunc('zk_mtime', ['Str'], 'Real')        # last modification time of a node (unchanged while nobody writes it)


@spec
def fin_archived(p):
    """Some live snapshot in the finished history holds the record p with the content it had."""
    return exists(lambda q, j: zk_exists(q) and cp_parent(q) == '/finished.history' and 0 <= j and
                  j < snap_len(zdec(zk_content(q))) and snap_path(zdec(zk_content(q)), j) == p and
                  snap_data(zdec(zk_content(q)), j) == rec_text(old(zk_content(p))), 'Str', 'Int')


@spec
def rec_text(c):
    """What cleanup_finished stores for a payload: None for an empty node, else the decoded bytes."""
    return ite(c == None, None, any_decode(c))


@spec
def fin_lossless():
    return forall(lambda p: implies(old(zk_exists(p)), zk_same(p) or fin_archived(p)), 'Str')


@spec
def fin_only_expired(expires_after):
    return forall(lambda n: implies(old(zk_exists(cp('/finished', n))) and not zk_exists(cp('/finished', n)),
                                    zk_mtime(cp('/finished', n)) < clock_now() - expires_after), 'Str')


@spec
def fw(expired, expires_after):
    return forall(lambda j: implies(0 <= j and j < len(expired),
                                    expired[j][0] == cp('/finished', expired[j][4]) and
                                    expired[j][1] == zk_mtime(expired[j][0]) and
                                    expired[j][1] < clock_now() - expires_after and
                                    expired[j][2] == rec_text(old(zk_content(expired[j][0])))), 'Int')


@spec
def fin_only_selected(expired):
    return forall(lambda p: zk_same(p) or
                  exists(lambda j: 0 <= j and j < len(expired) and p == expired[j][0], 'Int') or
                  (not old(zk_exists(p)) and cp_parent(p) == '/finished.history'), 'Str')


contract(A + ':cleanup_finished',
         types={'zkclient': 'KazooClient', 'batch_size': 'Int', 'expires_after': 'Real',
                'expired': 'List[%s]' % ROW, 'batch': 'List[%s]' % ROW},
         requires=['batch_size >= 1'],
         raises={'KazooException': [('C18', 'fin_lossless()', 'lossless_on_failure'),
                                    ('C18', 'fin_only_expired(expires_after)', 'only_expired_on_failure')]},
         ensures=[('C18', 'fin_lossless()', 'lossless'),
                  ('C18', 'fin_only_expired(expires_after)', 'only_expired')],
         modifies=['zk', 'fs', 'alloc', 'clock'], props=['C18'])
invariant(A + ':cleanup_finished', 0, 'for finished in zkclient.get_children(z.FINISHED)',
          ['all_same()', 'batch_size >= 1', ('C18', 'fw(expired, expires_after)')])
invariant(A + ':cleanup_finished', 1, 'for idx in range(0, len(expired), batch_size)',
          ['batch_size >= 1', ('C18', 'fw(expired, expires_after)'), ('C18', 'fin_lossless()'),
           ('C18', 'fin_only_selected(expired)')])


# ------------------------------------------------------------------ _zk.download_batch: what is archived is retrievable
contract(T + ':download_batch',
         types={'zkclient': 'KazooClient', 'db_node_path': 'Str', 'table': 'Str', 'name': 'Str', 'return': 'List[Str]',
                'events': 'List[Str]', 'select_stmt': 'Str'},
         raises={'NoNodeError': ['all_same()']},
         ensures=[# exactly the names of the snapshot rows that the statement built from `name` selects
                  ('C18', 'forall(lambda x: in_list(result, x) == '
                          '       exists(lambda j: 0 <= j and j < snap_len(zdec(zk_content(db_node_path))) and '
                          '              snap_name(zdec(zk_content(db_node_path)), j) == x and '
                          '              sel_match(SEL, x), "Int"), "Str")', 'returns_selected_rows'),
                  ('C18', 'all_same()', 'read_only')],
         ghost_out={'SEL': ('Str', 'select_stmt')},
         modifies=['fs', 'alloc'], props=['C18'])
invariant(T + ':download_batch', 0, 'for row in conn.execute(select_stmt)',
          ['all_same()',
           ('C18', 'len(events) == _i'),
           ('C18', 'forall(lambda j: implies(0 <= j and j < _i, events[j] == _seq[j][0]), "Int")')])


# ------------------------------------------------------------------ the two pruning entry points (one-line callers of _zk.cleanup)
for _fn, _root in (('cleanup_trace_history', '/trace.history'), ('cleanup_finished_history', '/finished.history')):
    contract(A + ':' + _fn, types={'zkclient': 'KazooClient', 'max_count': 'Int'},
             requires=['max_count >= 0'],
             raises={'NoNodeError': ['all_same()']},
             ensures=[('C18', 'forall(lambda a, b: implies(old(zk_exists(cp("%s", a))) and old(zk_exists(cp("%s", b))) and '
                              '       not zk_exists(cp("%s", a)) and zk_exists(cp("%s", b)), a <= b), "Str", "Str")'
                       % (_root, _root, _root, _root), 'pruned_are_older'),
                      ('C18', 'forall(lambda p: implies(cp_parent(p) != "%s", zk_same(p)), "Str")' % _root, 'only_history'),
                      ('C18', 'forall(lambda p: zk_same(p) or not zk_exists(p), "Str")', 'only_deletes')],
             modifies=['zk', 'alloc'], props=['C18'])


# ------------------------------------------------------------------ server.zk.cleanup_server_trace (the server-trace twin)
SV = 'treadmill.trace.server.zk'
axiom('server-trace-shard-not-history',
      'forall(lambda s: cp("/server-trace", s) != "/server-trace.history", "Str", pat=cp("/server-trace", s))',
      note="'/server-trace/<shard>' is not the string '/server-trace.history'")
contract('lib:heapq.merge', types={'$params': ['a', 'b'], 'a': 'List[%s]' % TR, 'b': 'List[%s]' % TR, 'return': 'List[%s]' % TR},
         ensures=['len(result) == len(a) + len(b)'], assumed=True,
         note='sorted merge of two lists (only its length is used: the batch needs no property of its elements)')


@spec
def srv_archived(p):
    return exists(lambda q: zk_exists(q) and cp_parent(q) == '/server-trace.history' and snap_has(zk_content(q), p), 'Str')


@spec
def srv_lossless():
    return forall(lambda p: implies(old(zk_exists(p)), zk_same(p) or srv_archived(p)), 'Str')


@spec
def srv_only_events():
    """Whatever changed is a node two levels below /server-trace, or a new snapshot."""
    return forall(lambda p: zk_same(p) or cp_parent(cp_parent(p)) == '/server-trace' or
                  (not old(zk_exists(p)) and cp_parent(p) == '/server-trace.history'), 'Str')


contract(SV + ':cleanup_server_trace',
         types={'zkclient': 'KazooClient', 'batch_size': 'Int', 'batch': 'List[%s]' % TR, 'traces': 'List[%s]' % TR,
                'num_events': 'Int', 'uploaded_events': 'Int', 'shards': 'List[Str]', 'events': 'List[Str]',
                'db_rows': 'List[%s]' % ROW},
         requires=['batch_size >= 1'],
         raises={'KazooException': [('C18', 'srv_lossless()', 'lossless_on_failure'),
                                    ('C18', 'srv_only_events()', 'only_events_on_failure')],
                 'ValueError': [('C18', 'srv_lossless()', 'lossless_on_bad_name'),
                                ('C18', 'srv_only_events()', 'only_events_on_bad_name')]},
         ensures=[('C18', 'srv_lossless()', 'lossless'), ('C18', 'srv_only_events()', 'only_events')],
         modifies=['zk', 'fs', 'alloc'], props=['C18'])
invariant(SV + ':cleanup_server_trace', 0, 'while True',
          ['batch_size >= 1', ('C18', 'srv_lossless()'), ('C18', 'srv_only_events()')])
invariant(SV + ':cleanup_server_trace', 1, 'for shard in shards',
          ['batch_size >= 1', ('C18', 'srv_lossless()'), ('C18', 'srv_only_events()')])
invariant(SV + ':cleanup_server_trace', 2, 'for event in events',
          ['batch_size >= 1', ('C18', 'srv_lossless()'), ('C18', 'srv_only_events()')])
contract(SV + ':cleanup_server_trace_history', types={'zkclient': 'KazooClient', 'max_count': 'Int'},
         requires=['max_count >= 0'],
         raises={'NoNodeError': ['all_same()']},
         ensures=[('C18', 'forall(lambda a, b: implies(old(zk_exists(cp("/server-trace.history", a))) and '
                          '       old(zk_exists(cp("/server-trace.history", b))) and '
                          '       not zk_exists(cp("/server-trace.history", a)) and zk_exists(cp("/server-trace.history", b)), '
                          '       a <= b), "Str", "Str")', 'pruned_are_older'),
                  ('C18', 'forall(lambda p: implies(cp_parent(p) != "/server-trace.history", zk_same(p)), "Str")', 'only_history'),
                  ('C18', 'forall(lambda p: zk_same(p) or not zk_exists(p), "Str")', 'only_deletes')],
         modifies=['zk', 'alloc'], props=['C18'])
