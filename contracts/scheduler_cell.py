"""Scheduler cycle: Bucket.put, the pre-passes and Cell._find_placements.

The cycle invariant CellInv(queue, servers) is the conjunction of
  srv_ok   every member server satisfies InvServer (capacity accounting, exact affinity counters)
  link     instance -> server view agrees with server -> instance view (InvLink)
  back     every instance stored on a member server is the queue's instance of that name
  ident    a placed instance holds its identity (the code's own asserts, proved here)
C01's end-of-cycle clauses are srv_ok + link + back.
"""
from pyvc_api import *   # noqa
import scheduler_core    # noqa

M = 'treadmill.scheduler'

cls('PlacementFeasibilityTracker', M, {'recorder': 'Dict[Int,Vec]'})

# position of an object in a duplicate-free list (least index; definable, hence a legitimate witness)
ufunc('qidx', ['List[Application]', 'Application'], 'Int')
# membership of a node in the cell's tree (closed under children; see tree_ok)
ufunc('in_cell', ['Node'], 'Bool')


# the partition an instance belongs to (label of the partition whose allocation tree holds it): C06 clause 1 /
# InvAlloc is assumed in this form at Allocation.utilization_queue
ufunc('app_label', ['Application'], 'Opt[Name]')


@spec
def in_queue(queue, a):
    return 0 <= qidx(queue, a) and qidx(queue, a) < len(queue) and queue[qidx(queue, a)] == a


@spec
def others_untouched(queue, cell):
    """A walk changes the server and the identity of instances of its own queue only."""
    return forall(lambda n: implies(n in cell.apps and not in_queue(queue, cell.apps[n]),
                                    cell.apps[n].server == old(cell.apps[n].server) and
                                    cell.apps[n].identity == old(cell.apps[n].identity)), 'Name')


@spec
def queue_ok(queue, cell):
    """The queue lists instances of the cell, each once."""
    return (forall(lambda j: implies(0 <= j and j < len(queue), qidx(queue, queue[j]) == j and
                                     queue[j].name in cell.apps and cell.apps[queue[j].name] == queue[j]), 'Int'))


@spec
def srv_ok(servers):
    return forall(lambda n: implies(n in servers, servers[n].name == n and inv_server(servers[n]) and
                                    inv_server_aff(servers[n])), 'Name')


@spec
def placed_ok(a, servers):
    """InvLink for one instance."""
    return a.server is None or (a.server in servers and a.name in servers[a.server].apps and
                                servers[a.server].apps[a.name] == a)


@spec
def apps_ok(cell):
    return forall(lambda n: implies(n in cell.apps, cell.apps[n].name == n), 'Name')


@spec
def link_ok(cell, servers):
    """instance -> server view: every scheduled instance is unplaced or stored on the member server it names."""
    return forall(lambda n: implies(n in cell.apps, placed_ok(cell.apps[n], servers)), 'Name')


@spec
def back_ok(cell, servers):
    """server -> instance view: whatever a member server stores is the cell's instance of that name."""
    return forall(lambda n, m: implies(n in servers and m in servers[n].apps,
                                       m in cell.apps and cell.apps[m] == servers[n].apps[m]), 'Name', 'Name')


@spec
def ident_ok(cell):
    return forall(lambda n: implies(n in cell.apps and cell.apps[n].server is not None,
                                    cell.apps[n].identity_group_ref is None or
                                    cell.apps[n].identity is not None), 'Name')


@spec
def groups_ok(cell):
    """Free identities of every group in use are within [0, count)."""
    return forall(lambda n, i: implies(n in cell.apps and cell.apps[n].identity_group_ref is not None and
                                       i in cell.apps[n].identity_group_ref.available,
                                       0 <= i and i < cell.apps[n].identity_group_ref.count), 'Name', 'Int')


@spec
def held_distinct(cell):
    """Within a group no two instances hold the same identity."""
    return forall(lambda n, m: implies(n in cell.apps and m in cell.apps and n != m and
                                       cell.apps[n].identity_group_ref is not None and
                                       cell.apps[n].identity_group_ref == cell.apps[m].identity_group_ref and
                                       cell.apps[n].identity is not None and cell.apps[m].identity is not None,
                                       cell.apps[n].identity != cell.apps[m].identity), 'Name', 'Name')


@spec
def held_not_free(cell):
    """A held identity is not on the group's free list."""
    return forall(lambda n: implies(n in cell.apps and cell.apps[n].identity_group_ref is not None and
                                    cell.apps[n].identity is not None,
                                    cell.apps[n].identity not in cell.apps[n].identity_group_ref.available), 'Name')


@spec
def ident_nonneg(cell):
    return forall(lambda n: implies(n in cell.apps and cell.apps[n].identity is not None,
                                    0 <= cell.apps[n].identity), 'Name')


@spec
def all_unplaced_free(cell):
    """C05 clause 4 over the whole cell."""
    return forall(lambda n: implies(n in cell.apps, unplaced_free(cell.apps[n])), 'Name')


@spec
def blacklist_ok(cell):
    """A blacklisted instance is not placed."""
    return forall(lambda n: implies(n in cell.apps and cell.apps[n].blacklisted, cell.apps[n].server is None), 'Name')


@spec
def ident_inv(cell):
    return groups_ok(cell) and held_distinct(cell) and held_not_free(cell)


@spec
def in_range_ok(cell):
    return forall(lambda n: implies(n in cell.apps and cell.apps[n].identity is not None and
                                    cell.apps[n].identity_group_ref is not None,
                                    0 <= cell.apps[n].identity and
                                    cell.apps[n].identity < cell.apps[n].identity_group_ref.count), 'Name')


@spec
def unplaced_free(a):
    """C05 clause 4 for one instance: not placed => holds no identity."""
    return a.server is not None or a.identity_group_ref is None or a.identity is None


@spec
def placed_valid(a, s):
    """C03: the server belongs to the partition of the instance's allocation and offers its traits."""
    return label_ok(s, a) and traits_ok(s, a)


@spec
def standing_ok(cell, servers):
    """C03 standing clause: every placed instance is on a server of its partition that has its traits."""
    return forall(lambda n: implies(n in cell.apps and cell.apps[n].server is not None and
                                    cell.apps[n].server in servers,
                                    placed_valid(cell.apps[n], servers[cell.apps[n].server])), 'Name')


@spec
def assigned_ok(a, servers):
    """C03 assignment clause for an instance whose server changed in this cycle."""
    return (servers[a.server]._state == State.up and placed_valid(a, servers[a.server]) and
            (a.lease == 0 or old(clock_now()) + a.lease < servers[a.server].valid_until))


@spec
def lease_same(cell):
    return forall(lambda n: implies(n in cell.apps, cell.apps[n].lease == old(cell.apps[n].lease)), 'Name')


@spec
def only_unplaced(cell):
    """The pre-passes never assign: an instance keeps its server or loses it."""
    return forall(lambda n: implies(n in cell.apps, cell.apps[n].server is None or
                                    cell.apps[n].server == old(cell.apps[n].server)), 'Name')


@spec
def removable(a, srv):
    """C08: the only reasons the inactive-server pass may take an instance off its server."""
    return ((srv._state == State.down and (a.data_retention_timeout is None or
                                           srv._state_since + a.data_retention_timeout <= clock_now())) or
            (srv._state == State.frozen and old(a.unschedule)))


@spec
def kept_ok(cell, servers):
    """An instance keeps its server through the inactive-server pass unless `removable`."""
    return forall(lambda n: implies(n in cell.apps,
                                    (cell.apps[n].server == old(cell.apps[n].server) and
                                     (cell.apps[n].server is None or
                                      cell.apps[n].unschedule == old(cell.apps[n].unschedule))) or
                                    (cell.apps[n].server is None and old(cell.apps[n].server) in servers and
                                     removable(cell.apps[n], servers[old(cell.apps[n].server)]))), 'Name')


@spec
def nonup_kept(cell, servers):
    """C08: no instance leaves a server that is not up (never evicted for capacity, never moved)."""
    return forall(lambda n: implies(n in cell.apps and old(cell.apps[n].server) is not None and
                                    old(cell.apps[n].server) in servers and
                                    servers[old(cell.apps[n].server)]._state != State.up,
                                    cell.apps[n].server == old(cell.apps[n].server)), 'Name')


@spec
def nonup_kept_unless_capped(cell, servers):
    """C08 for the placement walk: an instance on a server that is not up keeps it unless it is over its
    utilisation cap (never a victim, never moved)."""
    return forall(lambda n: implies(n in cell.apps and old(cell.apps[n].server) is not None and
                                    old(cell.apps[n].server) in servers and
                                    servers[old(cell.apps[n].server)]._state != State.up and
                                    cell.apps[n].final_rank != 9223372036854775807,
                                    cell.apps[n].server == old(cell.apps[n].server)), 'Name')


@spec
def cell_inv(cell, servers):
    return (apps_ok(cell) and srv_ok(servers) and link_ok(cell, servers) and back_ok(cell, servers) and
            ident_ok(cell))


@spec
def tree_ok(servers):
    """The member dict lists exactly the servers of the cell's tree; the tree is closed under children."""
    return (forall(lambda n: implies(n in servers, in_cell(servers[n])), 'Name') and
            forall(lambda s: implies(cls_is(s, 'Server') and in_cell(s), s.name in servers and servers[s.name] == s),
                   'Node') and
            forall(lambda b, j: implies(is_bucket(b) and in_cell(b) and 0 <= j and j < len(b.children) and
                                        b.children[j] is not None, in_cell(b.children[j])), 'Node', 'Int'))


@spec
def srv_same(s):
    """Nothing the cycle invariant reads on server s changed."""
    return (s.apps == old(s.apps) and vec_eq(s.free_capacity, old(s.free_capacity)) and
            s.affinity_counters == old(s.affinity_counters))


@spec
def start_idx(strategy):
    """Cursor at entry, normalised as the loop body does (len -> 0)."""
    return 0 if old(strategy.current_idx) == len(strategy.node.children) else old(strategy.current_idx)


# ------------------------------------------------------------------ strategy / tracker (frame-level contracts)
contract(M + ':Application.shape', types={'return': 'Tuple[Int,Vec]'}, assumed=True,
         note='opaque shape key (C02 opens it); reads only')
contract(M + ':PlacementFeasibilityTracker.feasible', types={'app': 'Application', 'return': 'Bool'},
         modifies=[], props=['C01'])
contract(M + ':PlacementFeasibilityTracker.adjust', types={'app': 'Application'},
         modifies=['self.recorder'], props=['C01'])
STRAT_ENS = ['self.current_idx >= 0 and self.current_idx <= len(self.node.children)',
             'implies(result is not None, exists(lambda j: 0 <= j and j < len(self.node.children) and '
             '        self.node.children[j] == result, "Int"))',
             # completeness of one cycle: None only if the bucket has no child left
             'implies(result is None, forall(lambda p: implies(0 <= p and p < len(self.node.children), '
             '        self.node.children[p] is None), "Int"))']
contract(M + ':SpreadStrategy.suggested_node', types={'return': 'Opt[Node]'},
         requires=['self.current_idx >= 0 and self.current_idx <= len(self.node.children)'],
         ensures=STRAT_ENS, modifies=['self.current_idx'], props=['C01', 'C02'])
invariant(M + ':SpreadStrategy.suggested_node', 0, 'for _ in six.moves.xrange(0, len(self.node.children))',
          ['self.current_idx >= 0 and self.current_idx <= len(self.node.children)',
           # cyclic interval visited so far, without modular arithmetic: s0 is the (normalised) start cursor
           'implies(_i == 0, self.current_idx == old(self.current_idx))',
           'implies(_i > 0 and start_idx(self) + _i <= len(self.node.children), '
           '   self.current_idx == start_idx(self) + _i and '
           '   forall(lambda p: implies(start_idx(self) <= p and p < self.current_idx, '
           '          self.node.children[p] is None), "Int"))',
           'implies(_i > 0 and start_idx(self) + _i > len(self.node.children), '
           '   self.current_idx == start_idx(self) + _i - len(self.node.children) and '
           '   forall(lambda p: implies((start_idx(self) <= p and p < len(self.node.children)) or '
           '          (0 <= p and p < self.current_idx), self.node.children[p] is None), "Int"))'])
contract(M + ':SpreadStrategy.next_node', types={'return': 'Opt[Node]'},
         requires=['self.current_idx >= 0 and self.current_idx <= len(self.node.children)'],
         ensures=STRAT_ENS, modifies=['self.current_idx'], props=['C01', 'C02'])
contract(M + ':Bucket.get_affinity_strategy', types={'affinity': 'Name', 'return': 'SpreadStrategy'},
         requires=['all_strategies_ok()',
                   'forall(lambda a: implies(a in self.affinity_strategies, self.affinity_strategies[a].node == self), "Name")'],
         ensures=['result.node == self', 'all_strategies_ok()',
                  'forall(lambda a: implies(a in self.affinity_strategies, self.affinity_strategies[a].node == self), "Name")'],
         modifies=['self.affinity_strategies', 'alloc'], props=['C01'])


# ------------------------------------------------------------------ Bucket.put (top-down placement)
@spec
def all_strategies_ok():
    """Every strategy cursor is within its bucket's child list (children are never removed from the list)."""
    return forall(lambda s: implies(alive(s) and cls_is(s, 'SpreadStrategy'),
                                    0 <= s.current_idx and s.current_idx <= len(s.node.children)), 'SpreadStrategy')


@spec
def strat_nodes_ok():
    return forall(lambda b, a: implies(is_bucket(b) and a in b.affinity_strategies,
                                       b.affinity_strategies[a].node == b), 'Node', 'Name')


@spec
def put_pre(app, servers):
    """What every placement attempt of `app` may rely on."""
    return (app.server is None and tree_ok(servers) and srv_ok(servers) and all_strategies_ok() and
            strat_nodes_ok() and
            forall(lambda n: implies(n in servers, app.name not in servers[n].apps), 'Name'))


@spec
def put_failed(app, servers):
    return (app.server is None and app.placement_expiry == old(app.placement_expiry) and
            forall(lambda n: implies(n in servers, srv_same(servers[n])), 'Name'))


@spec
def put_done_on(s, app, servers):
    """`app` was added to member server s (a value: evaluated in the post-state by the caller)."""
    return (old(fits_static(s, app)) and s._state == State.up and
            s.apps == dict_put(old(s.apps), app.name, app) and
            vec_eq(s.free_capacity, old(s.free_capacity) - app.demand) and
            app.placement_expiry is not None and
            (app.lease == 0 or old(clock_now()) + app.lease < s.valid_until) and
            forall(lambda n: implies(n in servers and n != s.name, srv_same(servers[n])), 'Name'))


@spec
def put_done(app, servers):
    return app.server is not None and app.server in servers and put_done_on(servers[app.server], app, servers)


BUCKET_PUT_MODIFIES = [
    'app.server', 'app.placement_expiry', 'alloc', 'clock',
    ('Server.apps', 'lambda r: in_cell(r)'),
    ('Node.free_capacity', 'lambda r: True'),
    ('Node.affinity_counters', 'lambda r: True'),
    ('Bucket.affinity_strategies', 'lambda r: is_bucket(r) and in_cell(r)'),
    ('SpreadStrategy.current_idx', 'lambda r: True'),
]

contract(M + ':Bucket.put', types={'app': 'Application', 'return': 'Bool', 'node': 'Opt[Node]'},
         ghost={'servers': 'Dict[Name,Server]'},
         requires=['in_cell(self)', 'put_pre(app, servers)', ('C04', 'tree_wf()')],
         ensures=['srv_ok(servers)', 'all_strategies_ok()', 'strat_nodes_ok()', 'clock_now() >= old(clock_now())',
                  'implies(not result, put_failed(app, servers))',
                  'implies(result, put_done(app, servers))',
                  # C04: counters move by exactly one placement, and every node on the way down had head-room
                  ('C04', 'implies(not result, counters_same())', 'fail_same'),
                  ('C04', 'implies(result, placed_delta(servers[app.server], app))', 'delta'),
                  ('C04', 'implies(result, forall(lambda r: implies((r == servers[app.server] or '
                          '  anc(r, servers[app.server])) and not anc(r, self), old(aff_room_at(r, app))), "Node"))',
                   'path_room')],
         modifies=BUCKET_PUT_MODIFIES, props=['C01', 'C03'])
invariant(M + ':Bucket.put', 0, 'while True',
          ['srv_ok(servers)', 'all_strategies_ok()', 'strat_nodes_ok()', 'put_failed(app, servers)',
           'clock_now() >= old(clock_now())', ('C04', 'counters_same()'), ('C04', 'tree_wf()'),
           'strategy.node == self and alive(strategy)',
           'node is not None and exists(lambda j: 0 <= j and j < len(self.children) and '
           '   self.children[j] == node, "Int")'])


# ------------------------------------------------------------------ Cell._find_placements
@spec
def evicted_ok(evicted, queue, servers, lo):
    """Victims of this cycle whose turn is still to come (index >= lo): unplaced, identity kept,
    remembered server is a member.  (Entries of instances whose turn was skipped - blacklisted or
    over their utilisation cap - stay in the map and are never looked at again.)"""
    return forall(lambda a: implies(a in evicted,
                                    0 <= qidx(queue, a) and qidx(queue, a) < len(queue) and
                                    queue[qidx(queue, a)] == a and
                                    evicted[a][0].name in servers and servers[evicted[a][0].name] == evicted[a][0] and
                                    implies(lo <= qidx(queue, a), a.server is None and
                                            (a.identity_group_ref is None or a.identity is not None))),
                  'Application')


@spec
def no_renew(cell):
    return forall(lambda n: implies(n in cell.apps, not cell.apps[n].renew), 'Name')


@spec
def renew_ok(queue, lo):
    """No renewal is pending.  `renew` is written by no production code except line 1736 of this very
    function, which only re-arms it when it was already set: it is False in every reachable state
    (DESIGN 7, observation O1: with `renew` set by hand, evicting a renewing instance trips the
    assertion at the top of its own turn)."""
    return forall(lambda j: implies(lo <= j and j < len(queue), not queue[j].renew), 'Int')


@spec
def cycle_ctx(servers):
    return tree_ok(servers) and all_strategies_ok() and strat_nodes_ok()


FIND_MODIFIES = [
    'alloc', 'clock',
    ('Application.server', 'lambda a: True'), ('Application.evicted', 'lambda a: True'),
    ('Application.unschedule', 'lambda a: True'), ('Application.placement_expiry', 'lambda a: True'),
    ('Application.renew', 'lambda a: True'), ('Application.identity', 'lambda a: True'),
    ('Application.lease', 'lambda a: True'),
    ('IdentityGroup.available', 'lambda g: True'),
    ('Server.apps', 'lambda r: in_cell(r)'),
    ('Node.free_capacity', 'lambda r: True'), ('Node.affinity_counters', 'lambda r: True'),
    ('Bucket.affinity_strategies', 'lambda r: is_bucket(r) and in_cell(r)'),
    ('SpreadStrategy.current_idx', 'lambda r: True'),
]

contract(M + ':Cell._find_placements',
         types={'queue': 'List[Application]', 'servers': 'Dict[Name,Server]',
                'evicted': 'Dict[Application,Tuple[Server,Opt[Real]]]',
                'reversed_queue': 'List[Application]'},
         requires=['in_cell(self)', 'queue_ok(queue, self)', 'cell_inv(self, servers)', 'cycle_ctx(servers)',
                   'no_renew(self)',
                   ('C05', 'groups_ok(self)'), ('C05', 'held_distinct(self)'), ('C05', 'held_not_free(self)'), ('C05', 'in_range_ok(self)'),
                   'blacklist_ok(self)',
                   # clause 4 holds when the walk starts (left by the previous cycle and the pre-passes)
                   ('C05', 'ident_nonneg(self)'),
                   ('C03', 'standing_ok(self, servers)'),
                   ('C04', 'tree_wf()'), ('C04', 'self.parent is None'), ('C04', 'limits_shared(self)'),
                   ('C04', 'lim_ok()')],
         ensures=['apps_ok(self)', 'srv_ok(servers)', 'link_ok(self, servers)', 'back_ok(self, servers)',
                  'ident_ok(self)', 'all_strategies_ok()', 'strat_nodes_ok()', 'no_renew(self)',
                  ('C05', 'groups_ok(self)'), ('C05', 'held_distinct(self)'), ('C05', 'held_not_free(self)'), ('C05', 'in_range_ok(self)'),
                  # clause 4: at the end of the walk an instance of this queue that is not placed holds no identity
                  ('C05', 'forall(lambda j: implies(0 <= j and j < len(queue), unplaced_free(queue[j])), "Int")',
                   'queue_free'),
                  ('C05', 'others_untouched(queue, self)', 'others_untouched'),
                  ('C05', 'ident_nonneg(self)'),
                  'blacklist_ok(self)',
                  # C03 (a): whatever this walk assigned went to an up server of the right partition, with the
                  # traits, and with the lease ending before the server's reboot time
                  ('C03', 'forall(lambda n: implies(n in self.apps and self.apps[n].server is not None and '
                          '  self.apps[n].server != old(self.apps[n].server), assigned_ok(self.apps[n], servers)), "Name")'),
                  ('C03', 'standing_ok(self, servers)'), ('C03', 'lease_same(self)'),
                  ('C03', 'clock_now() >= old(clock_now())'),
                  ('C04', 'lim_ok()', 'lim_ok'),
                  ('C08', 'nonup_kept_unless_capped(self, servers)'),
                  # frozen / down servers receive nothing new (C08), same clause as C03 (a)
                  ('C08', 'forall(lambda n: implies(n in self.apps and self.apps[n].server is not None and '
                          '  self.apps[n].server != old(self.apps[n].server), '
                          '  servers[self.apps[n].server]._state == State.up), "Name")')],
         modifies=FIND_MODIFIES, props=['C01', 'C03', 'C05', 'C08'])
invariant(M + ':Cell._find_placements', 0, 'for app in queue',
          ['srv_ok(servers)', 'link_ok(self, servers)', 'back_ok(self, servers)', 'ident_ok(self)',
           'all_strategies_ok()', 'strat_nodes_ok()',
           'evicted_ok(evicted, queue, servers, _i)', 'no_renew(self)',
           'implies(_i < len(queue), not queue[_i].renew)',
           'alive(placement_tracker)',
           ('C05', 'groups_ok(self)'), ('C05', 'held_distinct(self)'), ('C05', 'held_not_free(self)'), ('C05', 'in_range_ok(self)'),
           'blacklist_ok(self)',
           # clause 4: every instance already walked is placed or holds no identity (whatever it held when the
           # walk started: a server removed between cycles leaves its instances unplaced with their identities)
           ('C05', 'forall(lambda j: implies(0 <= j and j < _i, unplaced_free(queue[j])), "Int")', 'visited_free'),
           ('C05', 'others_untouched(queue, self)', 'others_untouched'),
           ('C05', 'ident_nonneg(self)'),
           ('C05', 'forall(lambda a: implies(a in evicted, not a.blacklisted), "Application")'),
           ('C03', 'standing_ok(self, servers)'),
           ('C03', 'forall(lambda n: implies(n in self.apps and self.apps[n].server is not None and '
                   '  self.apps[n].server != old(self.apps[n].server), assigned_ok(self.apps[n], servers)), "Name")'),
           # an instance still to be walked has the server it had when the cycle started, unless it is a victim
           ('C03', 'forall(lambda n: implies(n in self.apps and self.apps[n].server != old(self.apps[n].server), '
                   '  0 <= qidx(queue, self.apps[n]) and queue[qidx(queue, self.apps[n])] == self.apps[n] and '
                   '  (qidx(queue, self.apps[n]) < _i or self.apps[n] in evicted)), "Name")'),
           ('C03', 'forall(lambda a: implies(a in evicted, evicted[a][0].name == old(a.server)), "Application")'),
           ('C03', 'clock_now() >= old(clock_now())'), ('C03', 'lease_same(self)'),
           ('C04', 'tree_wf()'), ('C04', 'limits_shared(self)'), ('C04', 'lim_ok()', 'lim_ok'),
           ('C08', 'nonup_kept_unless_capped(self, servers)'),
           ('C08', 'forall(lambda n: implies(n in self.apps and self.apps[n].server is not None and '
                   '  self.apps[n].server != old(self.apps[n].server), '
                   '  servers[self.apps[n].server]._state == State.up), "Name")'),
           ('C08', 'forall(lambda a: implies(a in evicted, evicted[a][0].name == old(a.server) and '
                   '  evicted[a][0]._state == State.up), "Application")'),
           ('C08', 'forall(lambda n: implies(n in self.apps and self.apps[n].server != old(self.apps[n].server), '
                   '  0 <= qidx(queue, self.apps[n]) and queue[qidx(queue, self.apps[n])] == self.apps[n] and '
                   '  (qidx(queue, self.apps[n]) < _i or self.apps[n] in evicted)), "Name")')])
invariant(M + ':Cell._find_placements', 1, 'for evicted_app in reversed_queue',
          ['srv_ok(servers)', 'link_ok(self, servers)', 'back_ok(self, servers)', 'ident_ok(self)',
           'all_strategies_ok()', 'strat_nodes_ok()',
           'app.server is None', 'app.identity_group_ref is None or app.identity is not None',
           '_i <= len(queue) - 1 - qidx(queue, app)',
           'evicted_ok(evicted, queue, servers, qidx(queue, app) + 1)',
           'no_renew(self)',
           ('C05', 'groups_ok(self)'), ('C05', 'held_distinct(self)'), ('C05', 'held_not_free(self)'), ('C05', 'in_range_ok(self)'),
           'blacklist_ok(self)',
           ('C05', 'forall(lambda j: implies(0 <= j and j < qidx(queue, app), unplaced_free(queue[j])), "Int")',
            'visited_free'),
           ('C05', 'others_untouched(queue, self)', 'others_untouched'),
           ('C05', 'ident_nonneg(self)'),
           ('C05', 'forall(lambda a: implies(a in evicted, not a.blacklisted), "Application")'),
           ('C03', 'standing_ok(self, servers)'),
           ('C03', 'forall(lambda n: implies(n in self.apps and self.apps[n].server is not None and '
                   '  self.apps[n].server != old(self.apps[n].server), assigned_ok(self.apps[n], servers)), "Name")'),
           # an instance still to be walked has the server it had when the cycle started, unless it is a victim
           ('C03', 'forall(lambda n: implies(n in self.apps and self.apps[n].server != old(self.apps[n].server), '
                   '  0 <= qidx(queue, self.apps[n]) and queue[qidx(queue, self.apps[n])] == self.apps[n] and '
                   '  (qidx(queue, self.apps[n]) < (qidx(queue, app) + 1) or self.apps[n] in evicted)), "Name")'),
           ('C03', 'forall(lambda a: implies(a in evicted, evicted[a][0].name == old(a.server)), "Application")'),
           ('C03', 'clock_now() >= old(clock_now())'), ('C03', 'lease_same(self)'),
           ('C04', 'tree_wf()'), ('C04', 'limits_shared(self)'), ('C04', 'lim_ok()', 'lim_ok'),
           ('C08', 'nonup_kept_unless_capped(self, servers)'),
           ('C08', 'forall(lambda n: implies(n in self.apps and self.apps[n].server is not None and '
                   '  self.apps[n].server != old(self.apps[n].server), '
                   '  servers[self.apps[n].server]._state == State.up), "Name")'),
           ('C08', 'forall(lambda a: implies(a in evicted, evicted[a][0].name == old(a.server) and '
                   '  evicted[a][0]._state == State.up), "Application")'),
           ('C08', 'forall(lambda n: implies(n in self.apps and self.apps[n].server != old(self.apps[n].server), '
                   '  0 <= qidx(queue, self.apps[n]) and queue[qidx(queue, self.apps[n])] == self.apps[n] and '
                   '  (qidx(queue, self.apps[n]) < (qidx(queue, app) + 1) or self.apps[n] in evicted)), "Name")')])


# ------------------------------------------------------------------ pre-passes of a cycle
@spec
def weak_link(cell, servers):
    """Between cycles an instance may still name a server that has left the cell."""
    return forall(lambda n: implies(n in cell.apps, cell.apps[n].server is None or
                                    cell.apps[n].server not in servers or
                                    placed_ok(cell.apps[n], servers)), 'Name')


@spec
def ident_weak(cell, servers):
    """Between cycles: an instance naming a member server holds its identity."""
    return forall(lambda n: implies(n in cell.apps and cell.apps[n].server is not None and
                                    cell.apps[n].server in servers,
                                    cell.apps[n].identity_group_ref is None or
                                    cell.apps[n].identity is not None), 'Name')


@spec
def covers(queue, cell):
    """`queue` enumerates the cell's instances (cell.apps.values())."""
    return (forall(lambda j: implies(0 <= j and j < len(queue), queue[j].name in cell.apps and
                                     cell.apps[queue[j].name] == queue[j]), 'Int') and
            forall(lambda n: implies(n in cell.apps, 0 <= qidx(queue, cell.apps[n]) and
                                     qidx(queue, cell.apps[n]) < len(queue) and
                                     queue[qidx(queue, cell.apps[n])] == cell.apps[n]), 'Name'))


PREPASS_MODIFIES = [
    'clock',
    ('Application.server', 'lambda a: True'), ('Application.evicted', 'lambda a: True'),
    ('Application.unschedule', 'lambda a: True'), ('Application.placement_expiry', 'lambda a: True'),
    ('Application.identity', 'lambda a: True'), ('IdentityGroup.available', 'lambda g: True'),
    ('Server.apps', 'lambda r: in_cell(r)'),
    ('Node.free_capacity', 'lambda r: True'), ('Node.affinity_counters', 'lambda r: True'),
]

contract(M + ':Cell._fix_invalid_placements',
         types={'queue': 'List[Application]', 'servers': 'Dict[Name,Server]'},
         requires=['covers(queue, self)', 'apps_ok(self)', 'srv_ok(servers)', 'back_ok(self, servers)',
                   'weak_link(self, servers)', 'ident_weak(self, servers)',
                   ('C05', 'groups_ok(self)'), ('C05', 'held_distinct(self)'), ('C05', 'held_not_free(self)'), ('C05', 'ident_nonneg(self)'),
                   ('C03', 'standing_ok(self, servers)'),
                   ('C04', 'tree_wf()'), ('C04', 'self.parent is None'), ('C04', 'limits_shared(self)'),
                   ('C04', 'lim_ok()')],
         ensures=['apps_ok(self)', 'srv_ok(servers)', 'back_ok(self, servers)', 'link_ok(self, servers)',
                  'ident_ok(self)',
                  ('C05', 'groups_ok(self)'), ('C05', 'held_distinct(self)'), ('C05', 'held_not_free(self)'), ('C05', 'ident_nonneg(self)'),
                  ('C03', 'standing_ok(self, servers)'), ('C03', 'clock_now() >= old(clock_now())'),
                  ('C03', 'only_unplaced(self)'),
                  ('C08', 'forall(lambda n: implies(n in self.apps and old(self.apps[n].server) is not None and old(self.apps[n].server) in servers, self.apps[n].server == old(self.apps[n].server)), "Name")')],
         modifies=[('Application.server', 'lambda a: True'), ('Application.evicted', 'lambda a: True'),
                   ('Application.identity', 'lambda a: True'), ('IdentityGroup.available', 'lambda g: True')],
         props=['C01', 'C05'])
invariant(M + ':Cell._fix_invalid_placements', 0, 'for app in queue',
          ['srv_ok(servers)', 'back_ok(self, servers)', 'weak_link(self, servers)', 'ident_weak(self, servers)',
           # instances already visited satisfy the strong link
           'forall(lambda j: implies(0 <= j and j < _i, placed_ok(queue[j], servers)), "Int")',
           ('C05', 'groups_ok(self)'), ('C05', 'held_distinct(self)'), ('C05', 'held_not_free(self)'), ('C05', 'ident_nonneg(self)'),
           ('C03', 'standing_ok(self, servers)'), ('C03', 'clock_now() >= old(clock_now())'),
           ('C03', 'only_unplaced(self)'),
           ('C08', 'forall(lambda n: implies(n in self.apps and old(self.apps[n].server) is not None and old(self.apps[n].server) in servers, self.apps[n].server == old(self.apps[n].server)), "Name")')])

contract(M + ':Cell._handle_blacklisted_apps',
         types={'queue': 'List[Application]', 'servers': 'Dict[Name,Server]'},
         requires=['covers(queue, self)', 'apps_ok(self)', 'srv_ok(servers)', 'back_ok(self, servers)',
                   'link_ok(self, servers)', 'tree_ok(servers)', 'ident_ok(self)',
                   ('C05', 'groups_ok(self)'), ('C05', 'held_distinct(self)'), ('C05', 'held_not_free(self)'), ('C05', 'ident_nonneg(self)'),
                   ('C03', 'standing_ok(self, servers)'),
                   ('C04', 'tree_wf()'), ('C04', 'self.parent is None'), ('C04', 'limits_shared(self)'),
                   ('C04', 'lim_ok()')],
         ensures=[('C04', 'lim_ok()', 'lim_ok'), 'apps_ok(self)', 'srv_ok(servers)', 'back_ok(self, servers)', 'link_ok(self, servers)', 'ident_ok(self)',
                  'blacklist_ok(self)',
                  ('C05', 'groups_ok(self)'), ('C05', 'held_distinct(self)'), ('C05', 'held_not_free(self)'), ('C05', 'ident_nonneg(self)'),
                  ('C03', 'standing_ok(self, servers)'), ('C03', 'clock_now() >= old(clock_now())'),
                  ('C03', 'only_unplaced(self)'),
                  ('C08', 'forall(lambda n: implies(n in self.apps and not self.apps[n].blacklisted, self.apps[n].server == old(self.apps[n].server)), "Name")')],
         modifies=PREPASS_MODIFIES, props=['C01', 'C05', 'C08'])
invariant(M + ':Cell._handle_blacklisted_apps', 0, 'for app in queue',
          [('C04', 'lim_ok()', 'lim_ok'), ('C04', 'tree_wf()'), ('C04', 'limits_shared(self)'),
           'srv_ok(servers)', 'back_ok(self, servers)', 'link_ok(self, servers)', 'ident_ok(self)',
           'forall(lambda j: implies(0 <= j and j < _i and queue[j].blacklisted, queue[j].server is None), "Int")',
           ('C05', 'groups_ok(self)'), ('C05', 'held_distinct(self)'), ('C05', 'held_not_free(self)'), ('C05', 'ident_nonneg(self)'),
           ('C03', 'standing_ok(self, servers)'), ('C03', 'clock_now() >= old(clock_now())'),
           ('C03', 'only_unplaced(self)'),
           ('C08', 'forall(lambda n: implies(n in self.apps and not self.apps[n].blacklisted, self.apps[n].server == old(self.apps[n].server)), "Name")')])

contract(M + ':Cell._fix_invalid_identities',
         types={'queue': 'List[Application]', 'servers': 'Dict[Name,Server]'},
         requires=['covers(queue, self)', 'apps_ok(self)', 'srv_ok(servers)', 'back_ok(self, servers)',
                   'link_ok(self, servers)', 'tree_ok(servers)', 'ident_ok(self)', 'blacklist_ok(self)',
                   ('C05', 'groups_ok(self)'), ('C05', 'held_distinct(self)'), ('C05', 'held_not_free(self)'), ('C05', 'ident_nonneg(self)'),
                   ('C03', 'standing_ok(self, servers)'),
                   ('C04', 'tree_wf()'), ('C04', 'self.parent is None'), ('C04', 'limits_shared(self)'),
                   ('C04', 'lim_ok()')],
         ensures=[('C04', 'lim_ok()', 'lim_ok'), 'apps_ok(self)', 'srv_ok(servers)', 'back_ok(self, servers)', 'link_ok(self, servers)', 'ident_ok(self)', 'blacklist_ok(self)',
                  ('C05', 'forall(lambda n: implies(n in self.apps and self.apps[n].identity is not None and '
                          '  self.apps[n].identity_group_ref is not None, '
                          '  self.apps[n].identity < self.apps[n].identity_group_ref.count), "Name")'),
                  ('C05', 'groups_ok(self)'), ('C05', 'held_distinct(self)'), ('C05', 'held_not_free(self)'), ('C05', 'ident_nonneg(self)'),
                  ('C03', 'standing_ok(self, servers)'), ('C03', 'clock_now() >= old(clock_now())'),
                  ('C03', 'only_unplaced(self)'),
                  ('C08', 'forall(lambda n: implies(n in self.apps and (old(self.apps[n].identity) is None or self.apps[n].identity_group_ref is None or old(self.apps[n].identity) < self.apps[n].identity_group_ref.count), self.apps[n].server == old(self.apps[n].server)), "Name")'),
                  ('C08', 'nonup_kept(self, servers)', 'nonup_kept')],
         modifies=PREPASS_MODIFIES, props=['C01', 'C05'])
invariant(M + ':Cell._fix_invalid_identities', 0, 'for app in queue',
          [('C04', 'lim_ok()', 'lim_ok'), ('C04', 'tree_wf()'), ('C04', 'limits_shared(self)'),
           'srv_ok(servers)', 'back_ok(self, servers)', 'link_ok(self, servers)', 'ident_ok(self)', 'blacklist_ok(self)',
           ('C05,C08', 'forall(lambda j: implies(0 <= j and j < _i and queue[j].identity is not None and '
                   '  queue[j].identity_group_ref is not None, '
                   '  queue[j].identity < queue[j].identity_group_ref.count), "Int")'),
           ('C05', 'groups_ok(self)'), ('C05', 'held_distinct(self)'), ('C05', 'held_not_free(self)'), ('C05', 'ident_nonneg(self)'),
           ('C03', 'standing_ok(self, servers)'), ('C03', 'clock_now() >= old(clock_now())'),
           ('C03', 'only_unplaced(self)'),
           ('C08', 'forall(lambda n: implies(n in self.apps and (old(self.apps[n].identity) is None or self.apps[n].identity_group_ref is None or old(self.apps[n].identity) < self.apps[n].identity_group_ref.count), self.apps[n].server == old(self.apps[n].server)), "Name")'),
           ('C08', 'forall(lambda n: implies(n in self.apps, self.apps[n].identity == old(self.apps[n].identity) or qidx(queue, self.apps[n]) < _i), "Name")')])


@spec
def moved_ok(tbm, server, lo):
    """Instances selected for removal from `server` (from position lo on): stored there, pairwise distinct."""
    return (forall(lambda p: implies(lo <= p and p < len(tbm), tbm[p].name in server.apps and
                                     server.apps[tbm[p].name] == tbm[p]), 'Int') and
            forall(lambda p, q: implies(0 <= p and p < q and q < len(tbm), tbm[p].name != tbm[q].name), 'Int', 'Int'))


contract(M + ':Cell._handle_inactive_servers',
         types={'servers': 'Dict[Name,Server]', 'to_be_moved': 'List[Application]'},
         requires=['apps_ok(self)', 'srv_ok(servers)', 'back_ok(self, servers)', 'link_ok(self, servers)',
                   'tree_ok(servers)', 'ident_ok(self)',
                   ('C05', 'groups_ok(self)'), ('C05', 'held_distinct(self)'), ('C05', 'held_not_free(self)'), ('C05', 'ident_nonneg(self)'),
                   ('C03', 'standing_ok(self, servers)'),
                   ('C04', 'tree_wf()'), ('C04', 'self.parent is None'), ('C04', 'limits_shared(self)'),
                   ('C04', 'lim_ok()')],
         ensures=[('C04', 'lim_ok()', 'lim_ok'), 'apps_ok(self)', 'srv_ok(servers)', 'back_ok(self, servers)', 'link_ok(self, servers)',
                  'ident_ok(self)',
                  ('C05', 'groups_ok(self)'), ('C05', 'held_distinct(self)'), ('C05', 'held_not_free(self)'), ('C05', 'ident_nonneg(self)'),
                  ('C03', 'standing_ok(self, servers)'), ('C03', 'clock_now() >= old(clock_now())'),
                  ('C03', 'only_unplaced(self)'),
                  ('C08', 'kept_ok(self, servers)')],
         modifies=PREPASS_MODIFIES + ['self.next_event_at'], props=['C01', 'C05', 'C08'])
invariant(M + ':Cell._handle_inactive_servers', 0, 'for server in servers.values()',
          [('C04', 'lim_ok()', 'lim_ok'), ('C04', 'tree_wf()'), ('C04', 'limits_shared(self)'),
           'srv_ok(servers)', 'back_ok(self, servers)', 'link_ok(self, servers)', 'ident_ok(self)',
           ('C05', 'groups_ok(self)'), ('C05', 'held_distinct(self)'), ('C05', 'held_not_free(self)'), ('C05', 'ident_nonneg(self)'),
           ('C03', 'standing_ok(self, servers)'), ('C03', 'clock_now() >= old(clock_now())'),
           ('C03', 'only_unplaced(self)'),
           ('C08', 'kept_ok(self, servers)')])
invariant(M + ':Cell._handle_inactive_servers', 1, 'for (name, app) in server.apps.items()',
          [('C04', 'lim_ok()', 'lim_ok'), ('C04', 'tree_wf()'), ('C04', 'limits_shared(self)'),
           'srv_ok(servers)', 'back_ok(self, servers)', 'link_ok(self, servers)', 'ident_ok(self)',
           'server.apps == at_loop_entry(server.apps)',
           'forall(lambda p: implies(0 <= p and p < len(to_be_moved), to_be_moved[p].name in server.apps and '
           '       server.apps[to_be_moved[p].name] == to_be_moved[p] and _pos(to_be_moved[p].name) < _i), "Int")',
           'forall(lambda p, q: implies(0 <= p and p < q and q < len(to_be_moved), '
           '       _pos(to_be_moved[p].name) < _pos(to_be_moved[q].name)), "Int", "Int")',
           ('C05', 'groups_ok(self)'), ('C05', 'held_distinct(self)'), ('C05', 'held_not_free(self)'), ('C05', 'ident_nonneg(self)'),
           ('C03', 'standing_ok(self, servers)'), ('C03', 'clock_now() >= old(clock_now())'),
           ('C03', 'only_unplaced(self)'),
           ('C08', 'kept_ok(self, servers)'),
           ('C08', 'state == State.down and server._state == state and server._state_since == since'),
           ('C08', 'forall(lambda p: implies(0 <= p and p < len(to_be_moved), '
                   '  to_be_moved[p].data_retention_timeout is None or '
                   '  since + to_be_moved[p].data_retention_timeout <= clock_now()), "Int")')])
invariant(M + ':Cell._handle_inactive_servers', 2, 'for app in to_be_moved',
          [('C04', 'lim_ok()', 'lim_ok'), ('C04', 'tree_wf()'), ('C04', 'limits_shared(self)'),
           'srv_ok(servers)', 'back_ok(self, servers)', 'link_ok(self, servers)', 'ident_ok(self)',
           'moved_ok(to_be_moved, server, _i)',
           ('C05', 'groups_ok(self)'), ('C05', 'held_distinct(self)'), ('C05', 'held_not_free(self)'), ('C05', 'ident_nonneg(self)'),
           ('C03', 'standing_ok(self, servers)'), ('C03', 'clock_now() >= old(clock_now())'),
           ('C03', 'only_unplaced(self)'),
           ('C08', 'kept_ok(self, servers)'),
           ('C08', 'server._state == state and server._state_since == since'),
           ('C08', 'forall(lambda p: implies(_i <= p and p < len(to_be_moved), '
                   '  (state == State.down and (to_be_moved[p].data_retention_timeout is None or '
                   '     since + to_be_moved[p].data_retention_timeout <= clock_now())) or '
                   '  (state == State.frozen and to_be_moved[p].unschedule and '
                   '     to_be_moved[p].unschedule == old(to_be_moved[p].unschedule))), "Int")')])


# ------------------------------------------------------------------ schedule_alloc / schedule
axiom('qidx-least-index',
      'forall(lambda L, j: implies(0 <= j and j < len(L), 0 <= qidx(L, L[j]) and qidx(L, L[j]) <= j and '
      '       L[qidx(L, L[j])] == L[j]), "List[Application]", "Int")',
      note='qidx(L, x) is the least index of x in L: a definable function, its defining property is assumed')

# MEMBERS: the name -> server map of the leaf servers of the cell tree (what Cell.members() returns);
# the tree is not modified by a cycle.
ghostvar('MEMBERS', 'Dict[Name,Server]')
ufunc('alloc_in_cell', ['Allocation', 'Cell'], 'Bool')

contract(M + ':Node.members', types={'return': 'Dict[Name,Server]'},
         ensures=['implies(cls_is(self, "Cell"), result == MEMBERS)'], assumed=True,
         note='recursive union over the tree; assumed to return the member map (tree ops not yet under contract)')
contract(M + ':Node.size', types={'label': 'Opt[Name]', 'return': 'Vec'}, assumed=True,
         note='recursive sum of capacities; pure')
contract(M + ':Allocation.all_apps', types={'return': 'List[Application]'}, assumed=True, note='pure')
contract(M + ':Allocation.utilization_queue',
         types={'free_capacity': 'Vec', 'visitor': 'Opt[Int]',
                'return': 'List[Tuple[Int,Ext,Ext,Int,Int,Application]]'},
         ghost={'cell': ('Cell', 'self')},
         requires=['alloc_in_cell(self, cell)'],
         ensures=['forall(lambda j: implies(0 <= j and j < len(result), result[j][5].name in cell.apps and '
                  '       cell.apps[result[j][5].name] == result[j][5]), "Int")',
                  'forall(lambda i, j: implies(0 <= i and i < j and j < len(result), '
                  '       result[i][5] != result[j][5]), "Int", "Int")',
                  # exactly the cell's instances of this partition
                  ('C05', 'forall(lambda j: implies(0 <= j and j < len(result), app_label(result[j][5]) == self.label), "Int")'),
                  ('C05', 'forall(lambda n: implies(n in cell.apps and app_label(cell.apps[n]) == self.label, '
                          '  exists(lambda j: 0 <= j and j < len(result) and result[j][5] == cell.apps[n], "Int")), "Name")')],
         assumed=True,
         note='C06 clause 1 (each instance of the allocation tree exactly once; instances of the tree are '
              'the cell\'s instances of that partition): assumed here, stated and checked under C06')
contract(M + ':Cell._record_rank_and_util',
         types={'queue': 'List[Tuple[Int,Ext,Ext,Int,Int,Application]]'},
         modifies=[('Application.final_rank', 'lambda a: True'), ('Application.final_util', 'lambda a: True')],
         props=['C01', 'C06'])
invariant(M + ':Cell._record_rank_and_util', 0, 'for item in queue', [])


@spec
def cycle_pre(cell, servers):
    return (in_cell(cell) and cycle_ctx(servers) and apps_ok(cell) and srv_ok(servers) and
            back_ok(cell, servers) and
            forall(lambda n: implies(n in cell.apps, not cell.apps[n].renew), 'Name'))


contract(M + ':Cell.schedule_alloc',
         types={'allocation': 'Allocation', 'servers': 'Dict[Name,Server]',
                'util_queue': 'List[Tuple[Int,Ext,Ext,Int,Int,Application]]', 'queue': 'List[Application]'},
         requires=['alloc_in_cell(allocation, self)', 'cycle_pre(self, servers)', 'link_ok(self, servers)',
                   'ident_ok(self)', ('C05', 'groups_ok(self)'), ('C05', 'held_distinct(self)'), ('C05', 'held_not_free(self)'), ('C05', 'ident_nonneg(self)'), ('C05', 'in_range_ok(self)'),
                   'blacklist_ok(self)',
                   ('C03', 'standing_ok(self, servers)'), ('C04', 'tree_wf()'), ('C04', 'self.parent is None'), ('C04', 'limits_shared(self)'), ('C04', 'lim_ok()')],
         ensures=[('C04', 'lim_ok()', 'lim_ok'),
                  ('C05', 'forall(lambda n: implies(n in self.apps and app_label(self.apps[n]) == allocation.label, '
                          '       unplaced_free(self.apps[n])), "Name")', 'partition_free'),
                  ('C05', 'forall(lambda n: implies(n in self.apps and app_label(self.apps[n]) != allocation.label, '
                          '       self.apps[n].server == old(self.apps[n].server) and '
                          '       self.apps[n].identity == old(self.apps[n].identity)), "Name")', 'others_untouched'),
                  'cycle_pre(self, servers)', 'link_ok(self, servers)', 'ident_ok(self)', ('C05', 'groups_ok(self)'), ('C05', 'held_distinct(self)'), ('C05', 'held_not_free(self)'), ('C05', 'ident_nonneg(self)'),
                  ('C05', 'in_range_ok(self)'),
                  'blacklist_ok(self)',
                  ('C03', 'standing_ok(self, servers)'), ('C03', 'clock_now() >= old(clock_now())'),
                  ('C03', 'forall(lambda n: implies(n in self.apps and self.apps[n].server is not None and '
                          '  self.apps[n].server != old(self.apps[n].server), assigned_ok(self.apps[n], servers)), "Name")'),
                  ('C03', 'lease_same(self)')],
         modifies=FIND_MODIFIES + [('Application.final_rank', 'lambda a: True'),
                                   ('Application.final_util', 'lambda a: True')],
         props=['C01', 'C03', 'C04', 'C05'])

contract(M + ':Cell.schedule',
         types={'return': 'List[Tuple[Name,Opt[Name],Opt[Real],Opt[Name],Opt[Real]]]',
                'all_apps': 'List[Application]',
                'before': 'List[Tuple[Name,Opt[Name],Opt[Real]]]', 'after': 'List[Tuple[Opt[Name],Opt[Real]]]'},
         requires=['cls_is(self, "Cell")', 'cycle_pre(self, MEMBERS)', 'weak_link(self, MEMBERS)',
                   'ident_weak(self, MEMBERS)',
                   'forall(lambda l: implies(l in self.partitions, '
                   '       alloc_in_cell(self.partitions[l].allocation, self)), "Opt[Name]")',
                   ('C05', 'groups_ok(self)'), ('C05', 'held_distinct(self)'), ('C05', 'held_not_free(self)'), ('C05', 'ident_nonneg(self)'),
                   ('C03', 'standing_ok(self, MEMBERS)'),
                   ('C03,C05', 'forall(lambda l: implies(l in self.partitions, self.partitions[l].allocation.label == l), "Opt[Name]")'),
                   ('C05', 'forall(lambda n: implies(n in self.apps, app_label(self.apps[n]) in self.partitions), "Name")'),
                   ('C04', 'tree_wf()'), ('C04', 'self.parent is None'), ('C04', 'limits_shared(self)'), ('C04', 'lim_ok()')],
         ensures=[# C04: after the cycle the count of an affinity is within its limit at every node of the tree
                  ('C04', 'lim_ok()', 'lim_ok'),
                  ('C01', 'srv_ok(MEMBERS)'), ('C01', 'link_ok(self, MEMBERS)'), ('C01', 'back_ok(self, MEMBERS)'),
                  ('C01', 'apps_ok(self)'), ('C05', 'ident_ok(self)'),
                  # C05: unique, in range, held by every placed instance of a group, and only by placed ones
                  ('C05', 'groups_ok(self)'), ('C05', 'held_distinct(self)'), ('C05', 'held_not_free(self)'), ('C05', 'ident_nonneg(self)'), ('C05', 'in_range_ok(self)'),
                  # clause 4, for every instance of the cell, whatever was held when the cycle started
                  ('C05', 'all_unplaced_free(self)', 'all_unplaced_free'),
                  # C03: assignments of this cycle, and the standing clause
                  ('C03', 'forall(lambda n: implies(n in self.apps and self.apps[n].server is not None and '
                          '  self.apps[n].server != old(self.apps[n].server), assigned_ok(self.apps[n], MEMBERS)), "Name")'),
                  ('C03', 'standing_ok(self, MEMBERS)'),
                  # what the publisher (Master.reschedule / init_schedule, C09) is told: one record per listed instance -
                  # (name, server and expiry when the cycle started, server and expiry now)
                  ('C01', 'len(result) == len(AA) and forall(lambda j: implies(0 <= j and j < len(result), '
                          '  result[j][0] == AA[j].name and result[j][1] == old(AA[j].server) and '
                          '  result[j][2] == old(AA[j].placement_expiry) and result[j][3] == AA[j].server and '
                          '  result[j][4] == AA[j].placement_expiry), "Int")', 'returns_before_after')],
         ghost_out={'AA': ('List[Application]', 'all_apps')},
         modifies=FIND_MODIFIES + [('Application.final_rank', 'lambda a: True'),
                                   ('Application.final_util', 'lambda a: True'),
                                   ('Allocation.label', 'lambda a: True'), 'self.next_event_at'],
         props=['C01', 'C03', 'C04', 'C05', 'C08'])
invariant(M + ':Cell.schedule', 0, 'for (label, partition) in six.iteritems(self.partitions)', [])
invariant(M + ':Cell.schedule', 1, 'for (label, partition) in six.iteritems(self.partitions)',
          ['cycle_pre(self, servers)', 'link_ok(self, servers)', 'ident_ok(self)', 'servers == MEMBERS',
           ('C04', 'lim_ok()', 'lim_ok'),
           ('C05', 'groups_ok(self)'), ('C05', 'held_distinct(self)'), ('C05', 'held_not_free(self)'), ('C05', 'ident_nonneg(self)'), ('C05', 'in_range_ok(self)'),
           # an instance still unplaced with an identity belongs to a partition whose queue is still to be walked
           ('C05', 'forall(lambda n: implies(n in self.apps and not unplaced_free(self.apps[n]), '
                   '       _i <= _pos(app_label(self.apps[n]))), "Name")', 'holders_ahead'),
           'blacklist_ok(self)',
           ('C03', 'standing_ok(self, servers)'), ('C03', 'clock_now() >= old(clock_now())'),
           ('C03,C05', 'forall(lambda l: implies(l in self.partitions, self.partitions[l].allocation.label == l), "Opt[Name]")'),
           ('C03', 'forall(lambda n: implies(n in self.apps and self.apps[n].server is not None and '
                   '  self.apps[n].server != old(self.apps[n].server), assigned_ok(self.apps[n], servers)), "Name")'),
           ('C03', 'lease_same(self)')])
invariant(M + ':Cell.schedule', 2, 'for (appname, s_before, exp_before, s_after, exp_after) in placement', [])


# ------------------------------------------------------------------ identity events between cycles (C05)
@spec
def refs_ok(cell):
    """An instance's group reference is the cell's group of that name."""
    return (forall(lambda n: implies(n in cell.apps and cell.apps[n].identity_group_ref is not None,
                                     cell.apps[n].identity_group is not None and
                                     cell.apps[n].identity_group in cell.identity_groups and
                                     cell.identity_groups[cell.apps[n].identity_group] ==
                                     cell.apps[n].identity_group_ref), 'Name') and
            # add_app resolves the reference whenever the instance names a group
            forall(lambda n: implies(n in cell.apps and cell.apps[n].identity_group is not None,
                                     cell.apps[n].identity_group_ref is not None), 'Name'))


@spec
def ident_between(cell):
    """What the identity clauses need to hold between cycles (events preserve it, cycles rely on it)."""
    return (groups_ok(cell) and held_distinct(cell) and held_not_free(cell) and ident_nonneg(cell) and
            refs_ok(cell) and
            forall(lambda g: implies(g in cell.identity_groups, cell.identity_groups[g].count >= 0), 'Name') and
            forall(lambda g, i: implies(g in cell.identity_groups and i in cell.identity_groups[g].available,
                                        0 <= i and i < cell.identity_groups[g].count), 'Name', 'Int'))


contract(M + ':IdentityGroup.__init__', types={'count': 'Int'},
         requires=['count >= 0'],
         ensures=['self.count == count',
                  'forall(lambda i: (i in self.available) == (0 <= i and i < count), "Int")'],
         modifies=['self.count', 'self.available'], props=['C05'])

contract(M + ':Cell.configure_identity_group', types={'name': 'Name', 'count': 'Int'},
         requires=['count >= 0', 'ident_between(self)'],
         ensures=[('C05', 'groups_ok(self)'), ('C05', 'held_distinct(self)'),
                  # a grown group must not hand out an identity that is still held
                  ('C05', 'held_not_free(self)'),
                  ('C05', 'ident_nonneg(self)'), ('C05', 'refs_ok(self)'),
                  'name in self.identity_groups and self.identity_groups[name].count == count'],
         modifies=['self.identity_groups', 'alloc', ('IdentityGroup.count', 'lambda g: True'),
                   ('IdentityGroup.available', 'lambda g: True')],
         props=['C05'])
invariant(M + ':Cell.configure_identity_group', 0, 'for app in six.itervalues(self.apps)',
          ['group.count == count', 'name in self.identity_groups and self.identity_groups[name] == group',
           'self.identity_groups == at_loop_entry(self.identity_groups)',
           # only `group` loses free identities, and only such ones
           'forall(lambda i: implies(i in group.available, i in at_loop_entry(group.available)), "Int")',
           'forall(lambda n: implies(n in self.apps and self.apps[n].identity_group_ref is not None and '
           '       self.apps[n].identity_group_ref != group, '
           '       self.apps[n].identity_group_ref.available == '
           '       at_loop_entry(self.apps[n].identity_group_ref.available)), "Name")',
           'forall(lambda n: implies(n in self.apps and self.apps[n].identity_group_ref == group and '
           '       self.apps[n].identity is not None and _pos(n) < _i, '
           '       self.apps[n].identity not in group.available), "Name")'])

contract(M + ':Cell.remove_identity_group', types={'name': 'Name', 'ident_group': 'Opt[IdentityGroup]'},
         requires=['ident_between(self)'],
         ensures=[('C05', 'groups_ok(self)'), ('C05', 'held_distinct(self)'), ('C05', 'held_not_free(self)'),
                  ('C05', 'ident_nonneg(self)'), ('C05', 'refs_ok(self)')],
         modifies=['self.identity_groups', ('IdentityGroup.count', 'lambda g: True'),
                   ('IdentityGroup.available', 'lambda g: True')],
         props=['C05'])
invariant(M + ':Cell.remove_identity_group', 0, 'for app in six.itervalues(self.apps)',
          ['not in_use',
           'forall(lambda n: implies(n in self.apps and _pos(n) < _i, '
           '       self.apps[n].identity_group_ref != ident_group), "Name")',
           # nothing was adjusted yet
           'forall(lambda g: g.available == at_loop_entry(g.available) and g.count == at_loop_entry(g.count), '
           '       "IdentityGroup")'])


# ------------------------------------------------------------------ instances added / removed between cycles
@spec
def between_cycles(cell, servers):
    """What a cycle may assume on entry (C01 part); every event on the model has to preserve it."""
    return apps_ok(cell) and srv_ok(servers) and back_ok(cell, servers) and weak_link(cell, servers)


contract(M + ':Cell.add_app', types={'allocation': 'Allocation', 'app': 'Application'},
         requires=['between_cycles(self, MEMBERS)', 'ident_between(self)', 'ident_weak(self, MEMBERS)',
                   ('C03', 'standing_ok(self, MEMBERS)'),
                   # the instance is new to the cell, or it is the cell's instance of that name being re-assigned
                   '(app.name in self.apps and self.apps[app.name] == app) or '
                   '(app.name not in self.apps and app.server is None and app.identity is None and '
                   ' app.identity_group_ref is None and '
                   ' forall(lambda n: implies(n in MEMBERS, app.name not in MEMBERS[n].apps), "Name"))'],
         ensures=[('C01', 'between_cycles(self, MEMBERS)'), 'app.name in self.apps and self.apps[app.name] == app',
                  ('C05', 'groups_ok(self)'), ('C05', 'held_distinct(self)'), ('C05', 'held_not_free(self)'),
                  ('C05', 'ident_nonneg(self)'), ('C05', 'refs_ok(self)'),
                  ('C05', 'ident_weak(self, MEMBERS)'),
                  # C03 standing clause: moving an instance to another allocation must leave it on a server of
                  # its (new) partition with its (new) traits
                  ('C03,C07', 'standing_ok(self, MEMBERS)', 'standing')],
         modifies=['self.apps', 'self.identity_groups', 'alloc', 'app.allocation', 'app.identity_group_ref',
                   ('Allocation.apps', 'lambda a: True'), ('Application.allocation', 'lambda a: True')],
         props=['C01', 'C05'])

contract(M + ':Cell.remove_app', types={'appname': 'Name', 'servers': 'Dict[Name,Server]'},
         requires=['cls_is(self, "Cell")', 'between_cycles(self, MEMBERS)', 'ident_between(self)',
                   'ident_weak(self, MEMBERS)', 'tree_ok(MEMBERS)'],
         ensures=[('C01', 'between_cycles(self, MEMBERS)'), 'appname not in self.apps',
                  ('C05', 'groups_ok(self)'), ('C05', 'held_distinct(self)'), ('C05', 'held_not_free(self)'),
                  ('C05', 'ident_nonneg(self)'), ('C05', 'refs_ok(self)'),
                  ('C05', 'ident_weak(self, MEMBERS)')],
         modifies=['self.apps', ('Allocation.apps', 'lambda a: True'), ('Application.allocation', 'lambda a: True')]
         + PREPASS_MODIFIES, props=['C01', 'C05'])
