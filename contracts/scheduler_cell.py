"""Scheduler cycle: Bucket.put, the pre-passes and Cell._find_placements.

The cycle invariant CellInv(queue, servers) is the conjunction of
  srv_ok   every member server satisfies InvServer (capacity accounting, exact affinity counters)
  link     instance -> server view agrees with server -> instance view (InvLink)
  back     every instance stored on a member server is the queue's instance of that name
  ident    a placed instance holds its identity (the code's own asserts, proved here)
C01's end-of-cycle clauses are srv_ok + link + back.
"""
from pyvc_api import *   # noqa
import scheduler_core    # noqa

M = 'treadmill.scheduler'

cls('PlacementFeasibilityTracker', M, {'recorder': 'Dict[Int,Vec]'})

# position of an object in a duplicate-free list (least index; definable, hence a legitimate witness)
ufunc('qidx', ['List[Application]', 'Application'], 'Int')
# membership of a node in the cell's tree (closed under children; see tree_ok)
ufunc('in_cell', ['Node'], 'Bool')


@spec
def queue_ok(queue):
    """The queue lists each instance once and instance names are unique."""
    return (forall(lambda j: implies(0 <= j and j < len(queue), qidx(queue, queue[j]) == j), 'Int') and
            forall(lambda i, j: implies(0 <= i and i < j and j < len(queue), queue[i].name != queue[j].name),
                   'Int', 'Int'))


@spec
def srv_ok(servers):
    return forall(lambda n: implies(n in servers, servers[n].name == n and inv_server(servers[n]) and
                                    inv_server_aff(servers[n])), 'Name')


@spec
def placed_ok(a, servers):
    """InvLink for one instance."""
    return a.server is None or (a.server in servers and a.name in servers[a.server].apps and
                                servers[a.server].apps[a.name] == a)


@spec
def link_ok(queue, servers):
    return forall(lambda j: implies(0 <= j and j < len(queue), placed_ok(queue[j], servers)), 'Int')


@spec
def back_ok(queue, servers):
    return forall(lambda n, m: implies(n in servers and m in servers[n].apps,
                                       0 <= qidx(queue, servers[n].apps[m]) and
                                       qidx(queue, servers[n].apps[m]) < len(queue) and
                                       queue[qidx(queue, servers[n].apps[m])] == servers[n].apps[m]),
                  'Name', 'Name')


@spec
def ident_ok(queue):
    return forall(lambda j: implies(0 <= j and j < len(queue) and queue[j].server is not None,
                                    queue[j].identity_group_ref is None or queue[j].identity is not None), 'Int')


@spec
def cell_inv(queue, servers):
    return srv_ok(servers) and link_ok(queue, servers) and back_ok(queue, servers) and ident_ok(queue)


@spec
def tree_ok(servers):
    """The member dict lists exactly the servers of the cell's tree; the tree is closed under children."""
    return (forall(lambda n: implies(n in servers, in_cell(servers[n])), 'Name') and
            forall(lambda s: implies(cls_is(s, 'Server') and in_cell(s), s.name in servers and servers[s.name] == s),
                   'Node') and
            forall(lambda b, j: implies(is_bucket(b) and in_cell(b) and 0 <= j and j < len(b.children) and
                                        b.children[j] is not None, in_cell(b.children[j])), 'Node', 'Int'))


@spec
def srv_same(s):
    """Nothing the cycle invariant reads on server s changed."""
    return (s.apps == old(s.apps) and vec_eq(s.free_capacity, old(s.free_capacity)) and
            s.affinity_counters == old(s.affinity_counters))


@spec
def start_idx(strategy):
    """Cursor at entry, normalised as the loop body does (len -> 0)."""
    return 0 if old(strategy.current_idx) == len(strategy.node.children) else old(strategy.current_idx)


# ------------------------------------------------------------------ strategy / tracker (frame-level contracts)
contract(M + ':Application.shape', types={'return': 'Tuple[Int,Vec]'}, assumed=True,
         note='opaque shape key (C02 opens it); reads only')
contract(M + ':PlacementFeasibilityTracker.feasible', types={'app': 'Application', 'return': 'Bool'},
         modifies=[], props=['C01'])
contract(M + ':PlacementFeasibilityTracker.adjust', types={'app': 'Application'},
         modifies=['self.recorder'], props=['C01'])
STRAT_ENS = ['self.current_idx >= 0 and self.current_idx <= len(self.node.children)',
             'implies(result is not None, exists(lambda j: 0 <= j and j < len(self.node.children) and '
             '        self.node.children[j] == result, "Int"))',
             # completeness of one cycle: None only if the bucket has no child left
             'implies(result is None, forall(lambda p: implies(0 <= p and p < len(self.node.children), '
             '        self.node.children[p] is None), "Int"))']
contract(M + ':SpreadStrategy.suggested_node', types={'return': 'Opt[Node]'},
         requires=['self.current_idx >= 0 and self.current_idx <= len(self.node.children)'],
         ensures=STRAT_ENS, modifies=['self.current_idx'], props=['C01', 'C02'])
invariant(M + ':SpreadStrategy.suggested_node', 0, 'for _ in six.moves.xrange(0, len(self.node.children))',
          ['self.current_idx >= 0 and self.current_idx <= len(self.node.children)',
           # cyclic interval visited so far, without modular arithmetic: s0 is the (normalised) start cursor
           'implies(_i == 0, self.current_idx == old(self.current_idx))',
           'implies(_i > 0 and start_idx(self) + _i <= len(self.node.children), '
           '   self.current_idx == start_idx(self) + _i and '
           '   forall(lambda p: implies(start_idx(self) <= p and p < self.current_idx, '
           '          self.node.children[p] is None), "Int"))',
           'implies(_i > 0 and start_idx(self) + _i > len(self.node.children), '
           '   self.current_idx == start_idx(self) + _i - len(self.node.children) and '
           '   forall(lambda p: implies((start_idx(self) <= p and p < len(self.node.children)) or '
           '          (0 <= p and p < self.current_idx), self.node.children[p] is None), "Int"))'])
contract(M + ':SpreadStrategy.next_node', types={'return': 'Opt[Node]'},
         requires=['self.current_idx >= 0 and self.current_idx <= len(self.node.children)'],
         ensures=STRAT_ENS, modifies=['self.current_idx'], props=['C01', 'C02'])
contract(M + ':Bucket.get_affinity_strategy', types={'affinity': 'Name', 'return': 'SpreadStrategy'},
         requires=['all_strategies_ok()',
                   'forall(lambda a: implies(a in self.affinity_strategies, self.affinity_strategies[a].node == self), "Name")'],
         ensures=['result.node == self', 'all_strategies_ok()',
                  'forall(lambda a: implies(a in self.affinity_strategies, self.affinity_strategies[a].node == self), "Name")'],
         modifies=['self.affinity_strategies', 'alloc'], props=['C01'])


# ------------------------------------------------------------------ Bucket.put (top-down placement)
@spec
def all_strategies_ok():
    """Every strategy cursor is within its bucket's child list (children are never removed from the list)."""
    return forall(lambda s: implies(alive(s) and cls_is(s, 'SpreadStrategy'),
                                    0 <= s.current_idx and s.current_idx <= len(s.node.children)), 'SpreadStrategy')


@spec
def strat_nodes_ok():
    return forall(lambda b, a: implies(is_bucket(b) and a in b.affinity_strategies,
                                       b.affinity_strategies[a].node == b), 'Node', 'Name')


@spec
def put_pre(app, servers):
    """What every placement attempt of `app` may rely on."""
    return (app.server is None and tree_ok(servers) and srv_ok(servers) and all_strategies_ok() and
            strat_nodes_ok() and
            forall(lambda n: implies(n in servers, app.name not in servers[n].apps), 'Name'))


@spec
def put_failed(app, servers):
    return (app.server is None and app.placement_expiry == old(app.placement_expiry) and
            forall(lambda n: implies(n in servers, srv_same(servers[n])), 'Name'))


@spec
def put_done_on(s, app, servers):
    """`app` was added to member server s (a value: evaluated in the post-state by the caller)."""
    return (old(fits_static(s, app)) and s._state == State.up and
            s.apps == dict_put(old(s.apps), app.name, app) and
            vec_eq(s.free_capacity, old(s.free_capacity) - app.demand) and
            app.placement_expiry is not None and
            forall(lambda n: implies(n in servers and n != s.name, srv_same(servers[n])), 'Name'))


@spec
def put_done(app, servers):
    return app.server is not None and app.server in servers and put_done_on(servers[app.server], app, servers)


BUCKET_PUT_MODIFIES = [
    'app.server', 'app.placement_expiry', 'alloc',
    ('Server.apps', 'lambda r: in_cell(r)'),
    ('Node.free_capacity', 'lambda r: True'),
    ('Node.affinity_counters', 'lambda r: True'),
    ('Bucket.affinity_strategies', 'lambda r: is_bucket(r) and in_cell(r)'),
    ('SpreadStrategy.current_idx', 'lambda r: True'),
]

contract(M + ':Bucket.put', types={'app': 'Application', 'return': 'Bool', 'node': 'Opt[Node]'},
         ghost={'servers': 'Dict[Name,Server]'},
         requires=['in_cell(self)', 'put_pre(app, servers)'],
         ensures=['srv_ok(servers)', 'all_strategies_ok()', 'strat_nodes_ok()',
                  'implies(not result, put_failed(app, servers))',
                  'implies(result, put_done(app, servers))'],
         modifies=BUCKET_PUT_MODIFIES, props=['C01', 'C03'])
invariant(M + ':Bucket.put', 0, 'while True',
          ['srv_ok(servers)', 'all_strategies_ok()', 'strat_nodes_ok()', 'put_failed(app, servers)',
           'strategy.node == self and alive(strategy)',
           'node is not None and exists(lambda j: 0 <= j and j < len(self.children) and '
           '   self.children[j] == node, "Int")'])


# ------------------------------------------------------------------ Cell._find_placements
@spec
def evicted_ok(evicted, queue, servers, lo):
    """Victims of this cycle whose turn is still to come (index >= lo): unplaced, identity kept,
    remembered server is a member.  (Entries of instances whose turn was skipped - blacklisted or
    over their utilisation cap - stay in the map and are never looked at again.)"""
    return forall(lambda a: implies(a in evicted,
                                    0 <= qidx(queue, a) and qidx(queue, a) < len(queue) and
                                    queue[qidx(queue, a)] == a and
                                    evicted[a][0].name in servers and servers[evicted[a][0].name] == evicted[a][0] and
                                    implies(lo <= qidx(queue, a), a.server is None and
                                            (a.identity_group_ref is None or a.identity is not None))),
                  'Application')


@spec
def renew_ok(queue, lo):
    """No renewal is pending.  `renew` is written by no production code except line 1736 of this very
    function, which only re-arms it when it was already set: it is False in every reachable state
    (DESIGN 7, observation O1: with `renew` set by hand, evicting a renewing instance trips the
    assertion at the top of its own turn)."""
    return forall(lambda j: implies(lo <= j and j < len(queue), not queue[j].renew), 'Int')


@spec
def cycle_ctx(servers):
    return tree_ok(servers) and all_strategies_ok() and strat_nodes_ok()


FIND_MODIFIES = [
    'alloc',
    ('Application.server', 'lambda a: True'), ('Application.evicted', 'lambda a: True'),
    ('Application.unschedule', 'lambda a: True'), ('Application.placement_expiry', 'lambda a: True'),
    ('Application.renew', 'lambda a: True'), ('Application.identity', 'lambda a: True'),
    ('Application.lease', 'lambda a: True'),
    ('IdentityGroup.available', 'lambda g: True'),
    ('Server.apps', 'lambda r: in_cell(r)'),
    ('Node.free_capacity', 'lambda r: True'), ('Node.affinity_counters', 'lambda r: True'),
    ('Bucket.affinity_strategies', 'lambda r: is_bucket(r) and in_cell(r)'),
    ('SpreadStrategy.current_idx', 'lambda r: True'),
]

contract(M + ':Cell._find_placements',
         types={'queue': 'List[Application]', 'servers': 'Dict[Name,Server]',
                'evicted': 'Dict[Application,Tuple[Server,Opt[Real]]]',
                'reversed_queue': 'List[Application]'},
         requires=['in_cell(self)', 'queue_ok(queue)', 'srv_ok(servers)', 'link_ok(queue, servers)', 'back_ok(queue, servers)', 'ident_ok(queue)', 'cycle_ctx(servers)',
                   'renew_ok(queue, 0)'],
         ensures=['srv_ok(servers)', 'link_ok(queue, servers)', 'back_ok(queue, servers)', 'ident_ok(queue)', 'all_strategies_ok()', 'renew_ok(queue, 0)'],
         modifies=FIND_MODIFIES, props=['C01', 'C03', 'C05'])
invariant(M + ':Cell._find_placements', 0, 'for app in queue',
          ['srv_ok(servers)', 'link_ok(queue, servers)', 'back_ok(queue, servers)', 'ident_ok(queue)', 'all_strategies_ok()', 'strat_nodes_ok()',
           'evicted_ok(evicted, queue, servers, _i)', 'renew_ok(queue, 0)',
           'implies(_i < len(queue), not queue[_i].renew)',
           'alive(placement_tracker)'])
invariant(M + ':Cell._find_placements', 1, 'for evicted_app in reversed_queue',
          ['srv_ok(servers)', 'link_ok(queue, servers)', 'back_ok(queue, servers)', 'ident_ok(queue)', 'all_strategies_ok()', 'strat_nodes_ok()',
           'app.server is None', 'app.identity_group_ref is None or app.identity is not None',
           '_i <= len(queue) - 1 - qidx(queue, app)',
           'evicted_ok(evicted, queue, servers, qidx(queue, app) + 1)',
           'renew_ok(queue, 0)'])
