"""C13 - a container is running or in cleanup, never both (AppCfgMgr).

Functions under contract: treadmill.appcfgmgr:AppCfgMgr._terminate, _configure, _on_created, _on_deleted (the event
handlers and the two primitives every path goes through).  AppCfgMgr._synchronize is NOT under contract (nested
three-way reconciliation over two directory listings): it is covered by the bounded stand-in replay/c13.py only.

Ghost state: the file-system model of pyvc/engine_fs.py; running/<instance> and cleanup/<name> are symbolic links whose
target is the container directory apps/<container>.  fs.replace / fs.symlink_safe / fs.rm_safe are the real code, inlined
over os.replace (rename(2)), tempfile.mktemp, os.symlink, os.unlink.
"""
from pyvc_api import *   # noqa

M = 'treadmill.appcfgmgr'
A = M + ':AppCfgMgr'

cls('AppEnvironment', 'treadmill.appenv', {'apps_dir': 'Name', 'cache_dir': 'Name', 'running_dir': 'Name',
                                           'cleanup_dir': 'Name'})
cls('AppCfgMgr', M, {'tm_env': 'AppEnvironment', '_is_active': 'Bool', '_runtime': 'Name', '_runtime_param': 'Any'})
ufunc('fs_hidden', ['Name'], 'Bool')
ufunc('container_of', ['Name'], 'Name')     # appcfg.eventfile_unique_name(cache/<instance>) at the time of the call

contract('treadmill.appcfg.configure:configure',
         types={'tm_env': 'AppEnvironment', 'event': 'Path', 'runtime': 'Name', 'runtime_param': 'Any',
                'return': 'Opt[Path]'},
         ensures=['implies(result is not None, result == path(tm_env.apps_dir, container_of(event[1])))',
                  'links_same(tm_env)'],
         raises={'ContainerSetupError': ['links_same(tm_env)'], 'Exception': ['links_same(tm_env)']},
         modifies=['fs', 'alloc'], assumed=True,
         note='app_cfg.configure creates apps/<unique name of the event file>/ and returns it (None: nothing to '
              'configure); it creates no link in running/ or cleanup/')
contract('treadmill.appcfg.abort:report_aborted', types={}, assumed=True, modifies=['alloc'],
         note='posts an aborted event; no effect on running/ and cleanup/')
contract('treadmill.supervisor:control_svscan', types={}, assumed=True, modifies=['alloc'],
         note='signals s6-svscan; the supervisor reads running/, it creates and removes no link')
contract('treadmill.utils:touch', types={}, assumed=True, modifies=['alloc'],
         note='creates apps/<container>/data/terminated: no effect on running/ and cleanup/')
contract('lib:traceback.format_exc', types={'$params': [], 'return': 'Str'}, assumed=True)


@spec
def in_link_dirs(env, d):
    return d == env.running_dir or d == env.cleanup_dir


@spec
def same_entry(d, n):
    """The entry is what it was: same kind and, for a link, same target (the target of an absent name is meaningless)."""
    return fs_kind(d, n) == old(fs_kind(d, n)) and implies(fs_kind(d, n) == 2, fs_target(d, n) == old(fs_target(d, n)))


@spec
def links_same(env):
    """No entry of running/ or cleanup/ changed."""
    return forall(lambda d, n: implies(in_link_dirs(env, d), same_entry(d, n)), 'Int', 'Int')


@spec
def dirs_ok(env):
    return (env.running_dir != env.cleanup_dir and env.apps_dir != env.running_dir and
            env.apps_dir != env.cleanup_dir and env.cache_dir != env.running_dir and
            env.cache_dir != env.cleanup_dir and env.cache_dir != env.apps_dir)


@spec
def one_link(env):
    """A container directory is the target of at most one link of running/ and cleanup/."""
    return forall(lambda d1, n1, d2, n2: implies(
        in_link_dirs(env, d1) and in_link_dirs(env, d2) and fs_kind(d1, n1) == 2 and fs_kind(d2, n2) == 2 and
        fs_target(d1, n1) == fs_target(d2, n2), d1 == d2 and n1 == n2), 'Int', 'Int', 'Int', 'Int')


@spec
def only_links(env):
    """running/ and cleanup/ hold symbolic links (and nothing else that matters here)."""
    return forall(lambda d, n: implies(in_link_dirs(env, d), fs_kind(d, n) == 0 or fs_kind(d, n) == 2), 'Int', 'Int')


@spec
def unreferenced(env, c, xd, xn):
    """No link of running/ or cleanup/ other than (xd, xn) points at apps/<c>."""
    return forall(lambda d, n: implies(in_link_dirs(env, d) and fs_kind(d, n) == 2 and not (d == xd and n == xn),
                                       fs_target(d, n) != path(env.apps_dir, c)), 'Int', 'Int')


# ---------------------------------------------------------------- _terminate: running/<X> moves to cleanup/<container>
contract(A + '._terminate', types={'instance_name': 'Name'},
         requires=['dirs_ok(self.tm_env)', 'only_links(self.tm_env)', 'one_link(self.tm_env)'],
         ensures=[('C13', 'one_link(self.tm_env)', 'one_link'), 'only_links(self.tm_env)',
                  # the instance is no longer running; its container is referenced from cleanup, by the container's name
                  ('C13', 'fs_kind(self.tm_env.running_dir, instance_name) == 0', 'not_running'),
                  ('C13', 'implies(old(fs_kind(self.tm_env.running_dir, instance_name)) == 2, '
                          '  exists(lambda n: fs_kind(self.tm_env.cleanup_dir, n) == 2 and '
                          '    fs_target(self.tm_env.cleanup_dir, n) == old(fs_target(self.tm_env.running_dir, instance_name)), '
                          '    "Int"))', 'handed_to_cleanup'),
                  # nothing else changes: whatever changed is the running link (gone) or the cleanup link of that container
                  ('C13', 'forall(lambda d, n: implies(in_link_dirs(self.tm_env, d) and '
                          '  not same_entry(d, n), '
                          '  (d == self.tm_env.running_dir and n == instance_name) or '
                          '  (d == self.tm_env.cleanup_dir and fs_kind(d, n) == 2 and '
                          '   old(fs_kind(self.tm_env.running_dir, instance_name)) == 2 and '
                          '   fs_target(d, n) == old(fs_target(self.tm_env.running_dir, instance_name)))), "Int", "Int")',
                   'others_untouched')],
         modifies=['fs', 'alloc'], props=['C13'])


# ---------------------------------------------------------------- _configure: running/<X> -> apps/<container of cache/X>
@spec
def run_link_is(env, x, c):
    return fs_kind(env.running_dir, x) == 2 and fs_target(env.running_dir, x) == path(env.apps_dir, c)


@spec
def only_running_changed(env, x):
    """No entry of running/ or cleanup/ other than running/<x> changed."""
    return forall(lambda d, n: implies(in_link_dirs(env, d) and not (d == env.running_dir and n == x), same_entry(d, n)),
                  'Int', 'Int')


contract(A + '._configure', types={'instance_name': 'Name', 'return': 'Bool', 'container_dir': 'Opt[Path]',
                                   'event_file': 'Path'},
         requires=['dirs_ok(self.tm_env)', 'only_links(self.tm_env)', 'one_link(self.tm_env)',
                   # the container this cache entry denotes is not referenced by any other link (a new cache entry has a
                   # new unique name; the callers establish it)
                   'unreferenced(self.tm_env, container_of(instance_name), self.tm_env.running_dir, instance_name)'],
         ensures=[('C13', 'one_link(self.tm_env)', 'one_link'), 'only_links(self.tm_env)',
                  ('C13', 'implies(result, run_link_is(self.tm_env, instance_name, container_of(instance_name)))',
                   'running_follows_cache'),
                  ('C13', 'implies(not result, links_same(self.tm_env))', 'failure_changes_nothing'),
                  ('C13', 'only_running_changed(self.tm_env, instance_name)', 'others_untouched')],
         modifies=['fs', 'alloc'], props=['C13'])


# ---------------------------------------------------------------- event handlers
contract(A + '._first_sync', types={}, assumed=True,
         ensures=['one_link(self.tm_env)', 'only_links(self.tm_env)'], modifies=['fs', 'alloc', 'self._is_active'],
         note='_first_sync -> _synchronize: bounded stand-in only (replay/c13.py)')
contract(A + '._refresh_supervisor', types={}, inline=True)

contract(A + '._on_created', types={'event_file': 'Path', 'instance_name': 'Name'},
         requires=['dirs_ok(self.tm_env)', 'only_links(self.tm_env)', 'one_link(self.tm_env)',
                   # a created event is delivered for a new cache file: its unique name (inode, ctime) is new
                   'forall(lambda d, n: implies(in_link_dirs(self.tm_env, d) and fs_kind(d, n) == 2, '
                   '       fs_target(d, n) != path(self.tm_env.apps_dir, container_of(event_file[1]))), "Int", "Int")'],
         ensures=[('C13', 'one_link(self.tm_env)', 'one_link'), 'only_links(self.tm_env)',
                  # an instance that is already running is left alone; nothing but running/<instance> changes
                  ('C13', 'implies(event_file[1] != ".ready", only_running_changed(self.tm_env, event_file[1]))',
                   'others_untouched'),
                  ('C13', 'implies(event_file[1] != ".ready" and old(fs_kind(self.tm_env.running_dir, event_file[1])) == 2, '
                          '        links_same(self.tm_env))', 'running_left_alone'),
                  ('C13', 'implies(event_file[1] != ".ready" and not old(self._is_active), links_same(self.tm_env))',
                   'inactive_does_nothing')],
         modifies=['fs', 'alloc', 'self._is_active'], props=['C13'])

contract(A + '._on_deleted', types={'event_file': 'Path', 'instance_name': 'Name'},
         requires=['dirs_ok(self.tm_env)', 'only_links(self.tm_env)', 'one_link(self.tm_env)'],
         ensures=[('C13', 'one_link(self.tm_env)', 'one_link'), 'only_links(self.tm_env)',
                  # a container whose cache entry disappeared is handed to cleanup
                  ('C13', 'implies(old(self._is_active) and event_file[1] != ".ready" and not fs_hidden(event_file[1]), '
                          '        fs_kind(self.tm_env.running_dir, event_file[1]) == 0)', 'not_running'),
                  ('C13', 'implies(old(self._is_active) and event_file[1] != ".ready" and not fs_hidden(event_file[1]) '
                          '        and old(fs_kind(self.tm_env.running_dir, event_file[1])) == 2, '
                          '  exists(lambda n: fs_kind(self.tm_env.cleanup_dir, n) == 2 and '
                          '    fs_target(self.tm_env.cleanup_dir, n) == old(fs_target(self.tm_env.running_dir, event_file[1])), '
                          '    "Int"))', 'handed_to_cleanup'),
                  ('C13', 'implies(not old(self._is_active) or event_file[1] == ".ready", links_same(self.tm_env))',
                   'inactive_does_nothing')],
         modifies=['fs', 'alloc', 'self._is_active'], props=['C13'])
