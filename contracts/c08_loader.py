"""C08 (fail-over half) - Loader.adjust_server_state: what a (re)loaded server's state is.

A frozen server stays frozen across a master restart / server reload, a server without presence is down, and a state
that is merely restored keeps the time it was entered (the data-retention clock of a down server is not restarted by a
fail-over).  The stored record /placement/<server> = {state, since} is read through the Backend dependency contract.
"""
from pyvc_api import *   # noqa
import scheduler_core    # noqa  (class schemas of the scheduler model)

# Stand-alone on purpose: c09_master / c11_loader carry summary contracts of the scheduling cycle that must not be
# loaded next to the cycle's own contracts (./check C08 verifies the cycle itself).
L = 'treadmill.scheduler.loader:Loader'
cls('Backend', None, {})
cls('Loader', 'treadmill.scheduler.loader', {'cell': 'Cell', 'servers': 'Dict[Name,Server]', 'backend': 'Backend'})
ufunc('cp', ['Str', 'Str'], 'Str')
opaque('treadmill.zknamespace.path')


@spec
def all_same():
    return forall(lambda p: (zk_exists(p) == old(zk_exists(p))) and zk_content(p) == old(zk_content(p)), 'Str')


contract('lib:Backend.get_default', types={'$params': ['self', 'path', 'default'], '$defaults': {'default': None},
                                           'path': 'Str', 'return': 'Any'},
         ensures=['implies(zk_exists(path), result == zk_content(path))', 'all_same()'], assumed=True,
         note='the stored payload (the default if the node is missing)')
contract('lib:Backend.exists', types={'$params': ['self', 'path'], 'path': 'Str', 'return': 'Bool'},
         ensures=['result == zk_exists(path)', 'all_same()'], assumed=True)
ufunc('tok_state', ['Any'], 'State')          # State(<payload field>)
ufunc('tok_real', ['Any'], 'Real')            # a number stored in a payload
ufunc('tok_empty', ['Any'], 'Bool')           # `not payload` (missing node / empty record)

contract(L + '._record_server_state', types={'servername': 'Name'}, assumed=True, modifies=['zk', 'alloc'],
         note='writes {state, since} of the model back to /placement/<server>')


@spec
def stored(s):
    return zk_content(cp('/placement', str_of(s)))


@spec
def has_record(s):
    return zk_exists(cp('/placement', str_of(s))) and not tok_empty(stored(s))


@spec
def present(s):
    return zk_exists(cp('/server.presence', str_of(s)))


contract(L + '.adjust_server_state', types={'servername': 'Name', 'server': 'Opt[Server]', 'is_up': 'Bool',
                                            'placement_data': 'Any', 'state': 'State', 'since': 'Real',
                                            'placement_node': 'Str'},
         ensures=[# a server recorded as frozen is frozen after a reload, since when it was frozen
                  ('C08', 'implies(servername in self.servers and old(has_record(servername)) and old(present(servername)) and '
                          '  old(tok_state(any_get(stored(servername), "state"))) == State.frozen, '
                          '  self.servers[servername]._state == State.frozen)', 'frozen_survives_reload'),
                  # no presence: down; presence and not frozen: up
                  ('C08', 'implies(servername in self.servers and not old(present(servername)), '
                          '  self.servers[servername]._state == State.down)', 'absent_is_down'),
                  ('C08', 'implies(servername in self.servers and old(present(servername)) and old(has_record(servername)) and '
                          '  old(tok_state(any_get(stored(servername), "state"))) != State.frozen, '
                          '  self.servers[servername]._state == State.up)', 'present_is_up'),
                  # the retention clock: a server recorded as down that is still down keeps the time it went down
                  ('C08', 'implies(servername in self.servers and old(has_record(servername)) and not old(present(servername)) and '
                          '  old(tok_state(any_get(stored(servername), "state"))) == State.down and '
                          '  old(self.servers[servername]._state) != State.down, '
                          '  self.servers[servername]._state_since == old(tok_real(any_get(stored(servername), "since"))))', 'down_since_kept')],
         modifies=['zk', 'alloc', 'clock', ('Node._state', 'lambda r: True'), ('Node._state_since', 'lambda r: True'),
                   ('Node.free_capacity', 'lambda r: is_bucket(r)')],
         props=['C08'])
