"""C06 — the scheduling queue: Allocation.priv_utilization_queue (one allocation's instances in priority
order with their rank and utilisation), under contract.  The merge over sub-allocations
(Allocation.utilization_queue) is not yet under contract (see props.py)."""
from pyvc_api import *   # noqa
import scheduler_core    # noqa

M = 'treadmill.scheduler'
ENTRY = 'Tuple[Int,Ext,Ext,Int,Int,Application]'
UNPLACED = 9223372036854775807

ufunc('tidx', ['List[%s]' % ENTRY, 'Application'], 'Int')
axiom('tidx-least-index',
      'forall(lambda L, j: implies(0 <= j and j < len(L), 0 <= tidx(L, L[j][5]) and tidx(L, L[j][5]) <= j and '
      '       L[tidx(L, L[j][5])][5] == L[j][5]), "List[%s]", "Int")' % ENTRY,
      note='tidx(L, a) is the least index of instance a in the queue L (definable witness function)')


axiom('rdiv-sign',
      'forall(lambda a, b: implies(b > 0, ((rdiv(a, b) < 0) == (a < 0)) and ((rdiv(a, b) <= 0) == (a <= 0))), '
      '       "Real", "Real", pat=rdiv(a, b))',
      note='sign of a real quotient with a positive divisor (a theorem of real arithmetic; division by a symbolic '
           'divisor is kept uninterpreted so that the obligations stay linear)')


@spec
def within_reservation(P, n, alloc):
    """Cumulative demand of the first n instances stays within the reservation in every dimension."""
    return (acc(P, n, 0) <= alloc.reserved[0] and acc(P, n, 1) <= alloc.reserved[1] and
            acc(P, n, 2) <= alloc.reserved[2])


@spec
def acc(q, n, d):
    """Cumulative demand, dimension d, of the first n instances of the priority-ordered list q."""
    return sum_range(lambda k, L: L[k].demand[d], n, q)


@spec
def util1(a, r):
    return (a - r) / (r + eps())


@spec
def util(q, n, alloc):
    """utilization(acc, reserved, reserved + eps): the largest relative overshoot over the three dimensions."""
    return rmax3(util1(acc(q, n, 0), alloc.reserved[0]), util1(acc(q, n, 1), alloc.reserved[1]),
                 util1(acc(q, n, 2), alloc.reserved[2]))


@spec
def rmax3(a, b, c):
    return ite(a >= b, ite(a >= c, a, c), ite(b >= c, b, c))


@spec
def key_le(a, b):
    """_app_key order: priority descending, running before pending, first come first, name."""
    return ((-a.priority < -b.priority) or
            (a.priority == b.priority and
             ((0 if a.server else 1) < (0 if b.server else 1) or
              ((0 if a.server else 1) == (0 if b.server else 1) and
               (a.global_order < b.global_order or
                (a.global_order == b.global_order and a.name <= b.name))))))


@spec
def entry_ok(q, P, j, alloc):
    """What the j-th yielded entry q[j] is, as a function of the instances P[0..j] ahead of and including it
    (P: the allocation's instances in priority order; q[j][5] == P[j])."""
    return (q[j][5] == P[j] and
            q[j][3] == (0 if q[j][5].server else 1) and q[j][4] == q[j][5].global_order and
            # priority-0 instances carry infinite utilisation (end of every queue of their rank)
            implies(q[j][5].priority == 0, q[j][1] == float('inf') and q[j][2] == float('inf')) and
            implies(q[j][5].priority != 0, q[j][2] == util(P, j + 1, alloc) and q[j][1] == util(P, j, alloc)) and
            # beyond the utilisation cap: not scheduled at all; within the reservation before it: boosted rank
            q[j][0] == (9223372036854775807 if q[j][2] > alloc.max_utilization - 1 else
                        (alloc.rank - alloc.rank_adjustment if q[j][1] < 0 else alloc.rank)))


contract(M + ':utilization', types={'demand': 'Vec', 'allocated': 'Vec', 'available': 'Vec', 'return': 'Real'},
         requires=['available[0] > 0 and available[1] > 0 and available[2] > 0'],
         ensures=['result == rmax3((demand[0] - allocated[0]) / available[0], (demand[1] - allocated[1]) / available[1], '
                  '                (demand[2] - allocated[2]) / available[2])'],
         props=['C06'])

contract(M + ':Allocation.priv_utilization_queue',
         types={'return': 'List[%s]' % ENTRY, '_yielded': 'List[%s]' % ENTRY,
                'prio_queue': 'List[Application]', 'acc_demand': 'Vec', 'available': 'Vec',
                'util_before': 'Ext', 'util_after': 'Ext'},
         requires=['vec_ge(self.reserved, vec_zero())',
                   'forall(lambda n: implies(n in self.apps, self.apps[n].name == n and '
                   '       self.apps[n].priority >= 0), "Name")'],
         ensures=[# clause 1 (one allocation): every instance of the allocation exactly once
                  'forall(lambda j: implies(0 <= j and j < len(result), result[j][5].name in self.apps and '
                  '       self.apps[result[j][5].name] == result[j][5] and tidx(result, result[j][5]) == j), "Int")',
                  'forall(lambda n: implies(n in self.apps, 0 <= tidx(result, self.apps[n]) and '
                  '       tidx(result, self.apps[n]) < len(result) and '
                  '       result[tidx(result, self.apps[n])][5] == self.apps[n]), "Name")',
                  # clause 2: priority order, running before pending, first come first
                  'forall(lambda i, j: implies(0 <= i and i < j and j < len(result), '
                  '       key_le(result[i][5], result[j][5])), "Int", "Int")',
                  # clauses 4, 5, 6: every entry is what the statement says
                  'len(P) == len(result)',
                  # entry_ok(result, P, j, self), clause by clause (the conjunction is too large a goal for z3)
                  'forall(lambda j: implies(0 <= j and j < len(result), result[j][5] == P[j]), "Int")',
                  'forall(lambda j: implies(0 <= j and j < len(result), result[j][0] == '
                  '  (9223372036854775807 if result[j][2] > self.max_utilization - 1 else '
                  '   (self.rank - self.rank_adjustment if result[j][1] < 0 else self.rank))), "Int")',
                  'forall(lambda j: implies(0 <= j and j < len(result) and result[j][5].priority == 0, '
                  '       result[j][1] == float("inf") and result[j][2] == float("inf")), "Int")',
                  'forall(lambda j: implies(0 <= j and j < len(result), result[j][3] == (0 if result[j][5].server else 1) and '
                  '       result[j][4] == result[j][5].global_order), "Int")',
                  'forall(lambda j: implies(0 <= j and j < len(result) and result[j][5].priority != 0, '
                  '       result[j][2] == util(P, j + 1, self) and result[j][1] == util(P, j, self)), "Int")',
                  # clause 5 in the statement's words: cumulative demand (this instance included) within the
                  # reservation, a positive demand in every dimension and no cap below 1 => boosted rank
                  'forall(lambda j: implies(0 <= j and j < len(result) and result[j][5].priority != 0 and '
                  '  within_reservation(P, j + 1, self) and P[j].demand[0] > 0 and P[j].demand[1] > 0 and '
                  '  P[j].demand[2] > 0 and self.max_utilization >= 1, '
                  '  result[j][0] == self.rank - self.rank_adjustment), "Int")',
                  # clause 6: beyond the utilisation cap => not scheduled (rank UNPLACED)
                  'forall(lambda j: implies(0 <= j and j < len(result) and result[j][2] > self.max_utilization - 1, '
                  '  result[j][0] == 9223372036854775807), "Int")'],
         ghost_out={'P': ('List[Application]', 'prio_queue')},
         modifies=['alloc'], props=['C06'])
invariant(M + ':Allocation.priv_utilization_queue', 0, 'for app in prio_queue',
          ['len(_yielded) == _i',
           'forall(lambda j: implies(0 <= j and j < _i, _yielded[j][5] == prio_queue[j]), "Int")',
           'forall(lambda j: implies(0 <= j and j < _i, _yielded[j][0] == '
           '  (9223372036854775807 if _yielded[j][2] > self.max_utilization - 1 else '
           '   (self.rank - self.rank_adjustment if _yielded[j][1] < 0 else self.rank))), "Int")',
           'forall(lambda j: implies(0 <= j and j < _i and _yielded[j][5].priority == 0, '
           '       _yielded[j][1] == float("inf") and _yielded[j][2] == float("inf")), "Int")',
           'forall(lambda j: implies(0 <= j and j < _i, _yielded[j][3] == (0 if _yielded[j][5].server else 1) and '
           '       _yielded[j][4] == _yielded[j][5].global_order), "Int")',
           'forall(lambda j: implies(0 <= j and j < _i and _yielded[j][5].priority != 0, '
           '       _yielded[j][2] == util(prio_queue, j + 1, self)), "Int")',
           'forall(lambda j: implies(0 <= j and j < _i and _yielded[j][5].priority != 0, '
           '       _yielded[j][1] == util(prio_queue, j, self)), "Int")',
           'vec_eq(available, self.reserved + eps())',
           'acc_demand[0] == acc(prio_queue, _i, 0) and acc_demand[1] == acc(prio_queue, _i, 1) and '
           'acc_demand[2] == acc(prio_queue, _i, 2)',
           # util_before carried into the next iteration: the previous entry's util_after
           'implies(_i == 0, util_before == util(prio_queue, 0, self))',
           'implies(_i > 0, util_before == _yielded[_i - 1][2])',
           # priority 0 instances are last: once one was seen, everything after is priority 0
           'implies(_i > 0 and _yielded[_i - 1][5].priority == 0, '
           '        forall(lambda j: implies(_i <= j and j < len(prio_queue), prio_queue[j].priority == 0), "Int"))',
           'forall(lambda j: implies(0 <= j and j < len(prio_queue), prio_queue[j].priority >= 0), "Int")'])
