"""C04 — affinity counters are exact at every level and limits hold at every level.

`anc(a, n)`: a is a proper ancestor of n in the node tree.  It is tied to the `parent` field by tree_wf
(assumed when a cycle starts: the tree is not modified by a cycle).  Counter exactness is proved in its
*delta* form: every operation that changes the set of instances placed below a node changes that node's
counter by the same amount (increment/decrement touch exactly self and its ancestors)."""
from pyvc_api import *   # noqa
import scheduler_core    # noqa
import scheduler_cell    # noqa

M = 'treadmill.scheduler'

ufunc('anc', ['Node', 'Node'], 'Bool')
# the limit instances of one affinity declare for a level (the quantifier text: "instances of one affinity
# share their limits")
ufunc('aff_limit_inf', ['Name', 'Name'], 'Bool')
ufunc('aff_limit_val', ['Name', 'Name'], 'Int')      # finite limits are whole numbers (manifest integers)


@spec
def tree_wf():
    """anc is the transitive closure of parent, acyclic; ancestors are buckets."""
    return (forall(lambda n: implies(n.parent is not None, anc(n.parent, n)), 'Node') and
            forall(lambda a, n: implies(n.parent is not None and anc(a, n.parent), anc(a, n)), 'Node', 'Node') and
            forall(lambda a, n: implies(anc(a, n), n.parent is not None and (a == n.parent or anc(a, n.parent))),
                   'Node', 'Node') and
            forall(lambda n: not anc(n, n), 'Node') and
            forall(lambda a, n: implies(anc(a, n), is_bucket(a)), 'Node', 'Node') and
            forall(lambda b, j: implies(is_bucket(b) and 0 <= j and j < len(b.children) and
                                        b.children[j] is not None, b.children[j].parent == b), 'Node', 'Int'))


@spec
def chain_wf(s):
    """The part of tree_wf that concerns s and its ancestors: it survives re-parenting of a node that is not
    on that chain (add_node / reset_children walk up the chain while another node's parent link changes)."""
    return (forall(lambda n: implies((n == s or anc(n, s)) and n.parent is not None, anc(n.parent, n)), 'Node') and
            forall(lambda a, n: implies((n == s or anc(n, s)) and n.parent is not None and anc(a, n.parent),
                                        anc(a, n)), 'Node', 'Node') and
            forall(lambda a, n: implies((n == s or anc(n, s)) and anc(a, n),
                                        n.parent is not None and (a == n.parent or anc(a, n.parent))), 'Node', 'Node') and
            forall(lambda n: not anc(n, n), 'Node') and
            forall(lambda a, n: implies(anc(a, n), is_bucket(a)), 'Node', 'Node'))


@spec
def aff_room_at(n, app):
    return n.affinity_counters[app.affinity.name] < app.affinity.limits[n.level]


@spec
def placed_delta(s, app):
    """Counter effect of placing `app` on server s: +1 for its affinity on s and every ancestor, nothing else."""
    return (forall(lambda r, x: implies(r == s or anc(r, s), r.affinity_counters[x] ==
                                        old(r.affinity_counters)[x] + (1 if x == app.affinity.name else 0)),
                   'Node', 'Name') and
            forall(lambda r: implies(not (r == s or anc(r, s)), r.affinity_counters == old(r.affinity_counters)), 'Node'))


@spec
def counters_same():
    return forall(lambda r: r.affinity_counters == old(r.affinity_counters), 'Node')


@spec
def on_chain(r, n):
    """r is n or one of its ancestors."""
    return r == n or anc(r, n)


C04_INC = [('C04', 'forall(lambda r, x: implies(on_chain(r, self), r.affinity_counters[x] == '
                   '       old(r.affinity_counters)[x] + counters[x]), "Node", "Name")', 'chain_plus'),
           ('C04', 'forall(lambda r: implies(not on_chain(r, self), r.affinity_counters == old(r.affinity_counters)), '
                   '       "Node")', 'others_same')]
C04_DEC = [('C04', 'forall(lambda r, x: implies(on_chain(r, self), r.affinity_counters[x] == '
                   '       old(r.affinity_counters)[x] - counters[x]), "Node", "Name")', 'chain_minus'),
           ('C04', 'forall(lambda r: implies(not on_chain(r, self), r.affinity_counters == old(r.affinity_counters)), '
                   '       "Node")', 'others_same')]



@spec
def aff_limit(x, level):
    """The limit declared for affinity x at `level` (an extended real: +inf when not limited)."""
    return ext(aff_limit_inf(x, level), aff_limit_val(x, level))


@spec
def limits_shared(cell):
    """Instances of one affinity declare the same limits; finite limits are whole numbers >= 0."""
    return (forall(lambda n, l: implies(n in cell.apps, cell.apps[n].affinity.limits[l] ==
                                        aff_limit(cell.apps[n].affinity.name, l)), 'Name', 'Name') and
            forall(lambda x, l: aff_limit_inf(x, l) or aff_limit_val(x, l) >= 0, 'Name', 'Name'))


@spec
def lim_ok():
    """C04 limit clause: at every node the count of an affinity does not exceed its limit for that level."""
    return forall(lambda r, x: implies(r.affinity_counters[x] > 0,
                                       r.affinity_counters[x] <= aff_limit(x, r.level)), 'Node', 'Name')


@spec
def chain_room(s, app):
    """Head-room for app's affinity at server s and at every ancestor of s."""
    return forall(lambda r: implies(r == s or anc(r, s), aff_room_at(r, app)), 'Node')


# The two placements that bypass the top-down walk must find head-room at every level themselves.
site(M + ':Cell._find_placements', 'Server.restore', ordinal=0, asserts=[
    ('C04', 'implies(fits_static(evicted_from, app), chain_room(evicted_from, app))', 'restore_chain_room')])
site(M + ':Cell._find_placements', 'Server.put', asserts=[
    ('C04', 'implies(fits_static(evicted_app_server, app), chain_room(evicted_app_server, app))', 'evict_chain_room')])
