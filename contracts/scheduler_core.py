"""Scheduler core: class schemas, shared spec vocabulary (DESIGN 4), contracts for
IdentityGroup, Application, Node/Bucket aggregates and Server operations.

Serves C01 (capacity accounting, one server per instance), C03 (placement
constraints), C04 (affinity counters), C05 (identities), C08 (state handling).
"""
from pyvc_api import *   # noqa

M = 'treadmill.scheduler'

# every production entry point sets DIMENSION_COUNT = 3 (sproc/scheduler.py, api/scheduler.py, cli/admin/scheduler.py)
const('treadmill.scheduler.DIMENSION_COUNT', 3)

enum('State', ['up', 'down', 'frozen'], module=M)

cls('IdentityGroup', M, {'available': 'Set[Int]', 'count': 'Int'})
cls('Affinity', M, {'name': 'Name', 'limits': 'Total[Name,Ext]', 'constraints': 'Int'})
cls('Application', M, {
    'global_order': 'Int', 'name': 'Name', 'demand': 'Vec', 'affinity': 'Affinity', 'priority': 'Int',
    'allocation': 'Opt[Allocation]', 'data_retention_timeout': 'Opt[Real]', 'server': 'Opt[Name]',
    'lease': 'Real', 'identity': 'Opt[Int]', 'identity_group': 'Opt[Name]',
    'identity_group_ref': 'Opt[IdentityGroup]', 'schedule_once': 'Bool', 'evicted': 'Bool',
    'placement_expiry': 'Opt[Real]', 'renew': 'Bool', 'unschedule': 'Bool', 'final_rank': 'Int',
    'final_util': 'Ext', 'blacklisted': 'Bool', '_traits': 'Bits'})
cls('TraitSet', M, {'self_traits': 'Bits', 'children_traits': 'Dict[Name,Bits]', 'traits': 'Bits'})
cls('Node', M, {
    'name': 'Name', 'level': 'Name', 'free_capacity': 'Vec', 'parent': 'Opt[Bucket]',
    'children': 'List[Opt[Node]]', 'children_by_name': 'Dict[Name,Node]', 'traits': 'TraitSet',
    'labels': 'Set[Opt[Name]]', 'affinity_counters': 'Counter[Name]', 'valid_until': 'Real',
    '_state': 'State', '_state_since': 'Real'}, abstract=True)
cls('Bucket', M, {'affinity_strategies': 'Dict[Name,SpreadStrategy]'})
cls('Server', M, {'init_capacity': 'Vec', 'apps': 'Dict[Name,Application]', 'up_since': 'Real',
                  'presence_id': 'Opt[Name]'})
cls('Cell', M, {'partitions': 'Dict[Opt[Name],Partition]', 'next_event_at': 'Ext',
                'apps': 'Dict[Name,Application]', 'identity_groups': 'DefaultDict[Name,IdentityGroup]'})
cls('SpreadStrategy', M, {'current_idx': 'Int', 'node': 'Bucket'})
cls('Allocation', M, {
    'reserved': 'Vec', 'rank': 'Int', 'rank_adjustment': 'Int', 'traits': 'Bits', 'label': 'Opt[Name]',
    'max_utilization': 'Ext', 'apps': 'Dict[Name,Application]', 'sub_allocations': 'Dict[Name,Allocation]',
    'path': 'List[Name]', 'constraints': 'Int'})
cls('Partition', M, {'allocation': 'Allocation', 'label': 'Opt[Name]'})

# ------------------------------------------------------------------ folds (DESIGN 4.2)
fold('sum_demand', 'Dict[Name,Application]', 'lambda a: a.demand', ret='Vec')
fold('count_aff', 'Dict[Name,Application]', 'lambda a, x: 1 if a.affinity.name == x else 0',
     params=['Name'], ret='Int')


# type invariant of inputs (API schema: memory/cpu/disk are non-negative quantities); `demand` is written only by
# Application.__init__
axiom('demand-nonneg', 'forall(lambda a: vec_ge(a.demand, vec_zero()), "Application")',
      note='instance demand vectors are non-negative (manifest schema)')

# ------------------------------------------------------------------ invariants (DESIGN 4.3)
@spec
def is_bucket(r):
    return cls_is(r, 'Bucket') or cls_is(r, 'Cell')


@spec
def inv_server(s):
    """InvServer: capacity accounting and the server->instance view."""
    return (vec_eq(s.free_capacity, s.init_capacity - sum_demand(s.apps)) and
            # the summed demand does not exceed the declared capacity
            vec_ge(s.free_capacity, vec_zero()) and
            forall(lambda n: implies(n in s.apps, s.apps[n].name == n and s.apps[n].server == s.name), 'Name'))


@spec
def inv_server_aff(s):
    """The server's affinity counters equal the true counts."""
    return forall(lambda x: s.affinity_counters[x] == count_aff(s.apps, x), 'Name')


@spec
def app_valid(a):
    return vec_ge(a.demand, vec_zero()) and a.lease >= 0


# ------------------------------------------------------------------ IdentityGroup (C05)
contract(M + ':IdentityGroup.acquire', types={'return': 'Opt[Int]'},
         ensures=['implies(result is not None, result in old(self.available) and '
                  '        self.available == set_del(old(self.available), result))',
                  'implies(result is None, self.available == old(self.available) and '
                  '        forall(lambda i: i not in old(self.available), "Int"))',
                  'self.count == old(self.count)'],
         modifies=['self.available'], props=['C05'])
contract(M + ':IdentityGroup.release', types={'ident': 'Int'},
         ensures=['self.available == (set_put(old(self.available), ident) if ident < self.count '
                  '                   else old(self.available))'],
         modifies=['self.available'], props=['C05'])
contract(M + ':IdentityGroup.adjust', types={'count': 'Int'},
         requires=['count >= 0', 'self.count >= 0',
                   'forall(lambda i: implies(i in self.available, 0 <= i and i < self.count), "Int")'],
         ensures=['self.count == count',
                  'forall(lambda i: implies(i in self.available, 0 <= i and i < count), "Int")',
                  # shrinking keeps exactly the surviving free identities
                  'implies(count < old(self.count), forall(lambda i: (i in self.available) == '
                  '        (i in old(self.available) and i < count), "Int"))',
                  # growing adds exactly the new range
                  'implies(count >= old(self.count), forall(lambda i: (i in self.available) == '
                  '        (i in old(self.available) or (old(self.count) <= i and i < count)), "Int"))'],
         modifies=['self.available', 'self.count'], props=['C05'])

# ------------------------------------------------------------------ Application identity methods (C05)
contract(M + ':Application.acquire_identity', types={'return': 'Bool'},
         ensures=['implies(old(self.identity_group_ref) is None, result and self.identity == old(self.identity))',
                  'implies(old(self.identity_group_ref) is not None and old(self.identity) is not None, '
                  '        result and self.identity == old(self.identity) and '
                  '        self.identity_group_ref.available == old(self.identity_group_ref.available))',
                  'implies(old(self.identity_group_ref) is not None and old(self.identity) is None, '
                  '        result == (self.identity is not None) and '
                  '        implies(result, self.identity in old(self.identity_group_ref.available) and '
                  '           self.identity_group_ref.available == '
                  '              set_del(old(self.identity_group_ref.available), self.identity)) and '
                  '        implies(not result, self.identity_group_ref.available == '
                  '              old(self.identity_group_ref.available)))',
                  'result == self.has_identity()'],
         modifies=['self.identity', 'self.identity_group_ref.available'], props=['C05'])
contract(M + ':Application.release_identity', types={},
         ensures=['implies(old(self.identity_group_ref) is not None, self.identity is None)',
                  'implies(old(self.identity_group_ref) is None, self.identity == old(self.identity))',
                  'implies(old(self.identity_group_ref) is not None and old(self.identity) is not None, '
                  '   self.identity_group_ref.available == '
                  '     (set_put(old(self.identity_group_ref.available), old(self.identity)) '
                  '      if old(self.identity) < self.identity_group_ref.count '
                  '      else old(self.identity_group_ref.available)))',
                  'implies(old(self.identity_group_ref) is not None and old(self.identity) is None, '
                  '   self.identity_group_ref.available == old(self.identity_group_ref.available))'],
         modifies=['self.identity', 'self.identity_group_ref.available'], props=['C05'])


# ------------------------------------------------------------------ Node / Bucket aggregates
# Coarse frames (enough for C01/C03/C05): the recursive walks up the parent chain only ever
# write aggregate fields of *buckets* (a parent is a Bucket or the Cell), never a server's
# capacity/apps nor any application field.
contract(M + ':Node.children_iter', types={'return': 'List[Node]', '_yielded': 'List[Node]'},
         ensures=[# the children that are still there (removed children leave a None slot), each one from some slot
                  'forall(lambda j: implies(0 <= j and j < len(result), '
                  '       exists(lambda k: 0 <= k and k < len(self.children) and self.children[k] == result[j], "Int")), "Int")',
                  'forall(lambda k: implies(0 <= k and k < len(self.children) and self.children[k] is not None, '
                  '       exists(lambda j: 0 <= j and j < len(result) and result[j] == self.children[k], "Int")), "Int")'],
         props=['C04'])
invariant(M + ':Node.children_iter', 0, 'for child in self.children',
          ['len(_yielded) <= _i',
           'forall(lambda j: implies(0 <= j and j < len(_yielded), '
           '       exists(lambda k: 0 <= k and k < _i and self.children[k] == _yielded[j], "Int")), "Int")',
           'forall(lambda k: implies(0 <= k and k < _i and self.children[k] is not None, '
           '       exists(lambda j: 0 <= j and j < len(_yielded) and _yielded[j] == self.children[k], "Int")), "Int")'])

contract(M + ':Node.increment_affinity', types={'counters': 'Counter[Name]'},
         requires=[('C04', 'chain_wf(self)')],
         ensures=['implies(cls_is(self, "Server"), forall(lambda x: self.affinity_counters[x] == '
                  '        old(self.affinity_counters)[x] + counters[x], "Name"))',
                  # C04: exactly self and its ancestors change, by exactly `counters`
                  ('C04', 'forall(lambda r, x: implies(r == self or anc(r, self), r.affinity_counters[x] == '
                          '       old(r.affinity_counters)[x] + counters[x]), "Node", "Name")', 'chain_plus'),
                  ('C04', 'forall(lambda r: implies(not (r == self or anc(r, self)), '
                          '       r.affinity_counters == old(r.affinity_counters)), "Node")', 'others_same')],
         modifies=[('Node.affinity_counters', 'lambda r: r == self or is_bucket(r)')], props=['C01', 'C04'])
contract(M + ':Node.decrement_affinity', types={'counters': 'Counter[Name]'},
         requires=[('C04', 'chain_wf(self)')],
         ensures=['implies(cls_is(self, "Server"), forall(lambda x: self.affinity_counters[x] == '
                  '        old(self.affinity_counters)[x] - counters[x], "Name"))',
                  ('C04', 'forall(lambda r, x: implies(r == self or anc(r, self), r.affinity_counters[x] == '
                          '       old(r.affinity_counters)[x] - counters[x]), "Node", "Name")', 'chain_minus'),
                  ('C04', 'forall(lambda r: implies(not (r == self or anc(r, self)), '
                          '       r.affinity_counters == old(r.affinity_counters)), "Node")', 'others_same')],
         modifies=[('Node.affinity_counters', 'lambda r: r == self or is_bucket(r)')], props=['C01', 'C04'])
contract(M + ':Bucket.adjust_capacity_up', types={'new_capacity': 'Vec'},
         modifies=[('Node.free_capacity', 'lambda r: is_bucket(r)')], props=['C01'])
contract(M + ':Bucket.adjust_capacity_down', types={'prev_capacity': 'Opt[Vec]', 'free_capacity': 'Vec'},
         modifies=[('Node.free_capacity', 'lambda r: is_bucket(r)')], props=['C01'])
invariant(M + ':Bucket.adjust_capacity_down', 0, 'for child_node in self.children_iter()', [])


# ------------------------------------------------------------------ Server (C01, C03, C08)
@spec
def label_ok(s, app):
    return app.allocation is None or app.allocation.label in s.labels


@spec
def app_traits(app):
    return app._traits if app.allocation is None else (app._traits | app.allocation.traits)


@spec
def traits_ok(s, app):
    return app_traits(app) == 0 or (s.traits.traits & app_traits(app)) == app_traits(app)


@spec
def aff_room(n, app):
    return n.affinity_counters[app.affinity.name] < app.affinity.limits[n.level]


@spec
def fits_static(s, app):
    """Everything Server.put checks except the lease (which reads the clock)."""
    return label_ok(s, app) and traits_ok(s, app) and aff_room(s, app) and vec_le(app.demand, s.free_capacity)


contract(M + ':Server.check_app_lifetime', types={'app': 'Application', 'return': 'Bool'},
         ensures=['implies(app.lease == 0, result)', 'clock_now() >= old(clock_now())',
                  # the lease must end before the server's reboot time, judged at the clock value read here
                  'implies(app.lease != 0, result == (clock_now() + app.lease < self.valid_until))'],
         modifies=['clock'], props=['C03'])

contract(M + ':Server.put', types={'app': 'Application', 'return': 'Bool'},
         requires=['inv_server(self)', 'inv_server_aff(self)', 'app.name not in self.apps', ('C04', 'tree_wf()')],
         ensures=['inv_server(self)', 'inv_server_aff(self)',
                  # success: exactly this instance is added, its demand is subtracted
                  'implies(result, old(fits_static(self, app)) and app.server == self.name and '
                  '   self.apps == dict_put(old(self.apps), app.name, app) and '
                  '   vec_eq(self.free_capacity, old(self.free_capacity) - app.demand) and '
                  '   app.placement_expiry is not None)',
                  # failure: nothing observable changed
                  'implies(not result, self.apps == old(self.apps) and '
                  '   vec_eq(self.free_capacity, old(self.free_capacity)) and app.server == old(app.server) and '
                  '   app.placement_expiry == old(app.placement_expiry) and '
                  '   self.affinity_counters == old(self.affinity_counters))',
                  # completeness (lease-free instances): refusal means a static constraint failed
                  'implies(not result and app.lease == 0, not old(fits_static(self, app)))',
                  'implies(result and old(app.placement_expiry) is not None, '
                  '        app.placement_expiry == old(app.placement_expiry))',
                  'clock_now() >= old(clock_now())',
                  # C03 lease clause, against the clock at the start of the call (the check reads it later)
                  'implies(result and app.lease != 0, old(clock_now()) + app.lease < self.valid_until)',
                  # ... and the expiry granted to a newly placed instance is the lease counted from now
                  ('C03', 'implies(result and old(app.placement_expiry) is None, '
                          '        app.placement_expiry == clock_now() + app.lease)', 'lease_from_now'),
                  # C04: a placement adds one to the affinity's counter of the server and of every ancestor
                  ('C04', 'implies(result, forall(lambda r, x: implies(r == self or anc(r, self), '
                          '  r.affinity_counters[x] == old(r.affinity_counters)[x] + '
                          '  (1 if x == app.affinity.name else 0)), "Node", "Name"))', 'chain_plus'),
                  ('C04', 'implies(not result, forall(lambda r: r.affinity_counters == old(r.affinity_counters), "Node"))',
                   'fail_same'),
                  ('C04', 'forall(lambda r: implies(not (r == self or anc(r, self)), '
                          '       r.affinity_counters == old(r.affinity_counters)), "Node")', 'others_same')],
         modifies=['clock', 'self.free_capacity', 'self.apps', 'app.server', 'app.placement_expiry',
                   ('Node.affinity_counters', 'lambda r: r == self or is_bucket(r)'),
                   ('Node.free_capacity', 'lambda r: is_bucket(r)')],
         props=['C01', 'C03', 'C04'])

contract(M + ':Server.remove', types={'app_name': 'Name'},
         requires=['inv_server(self)', 'inv_server_aff(self)', 'app_name in self.apps', ('C04', 'tree_wf()')],
         ensures=['inv_server(self)', 'inv_server_aff(self)',
                  'self.apps == dict_del(old(self.apps), app_name)',
                  'vec_eq(self.free_capacity, old(self.free_capacity) + old(self.apps[app_name]).demand)',
                  'old(self.apps[app_name]).server is None',
                  'old(self.apps[app_name]).evicted and not old(self.apps[app_name]).unschedule',
                  'old(self.apps[app_name]).placement_expiry is None',
                  ('C04', 'forall(lambda r, x: implies(r == self or anc(r, self), '
                          '  r.affinity_counters[x] == old(r.affinity_counters)[x] - '
                          '  (1 if x == old(self.apps[app_name]).affinity.name else 0)), "Node", "Name")', 'chain_minus'),
                  ('C04', 'forall(lambda r: implies(not (r == self or anc(r, self)), '
                          '       r.affinity_counters == old(r.affinity_counters)), "Node")', 'others_same')],
         modifies=['self.free_capacity', 'self.apps',
                   ('Application.server', 'lambda a: a == old(self.apps[app_name])'),
                   ('Application.evicted', 'lambda a: a == old(self.apps[app_name])'),
                   ('Application.unschedule', 'lambda a: a == old(self.apps[app_name])'),
                   ('Application.placement_expiry', 'lambda a: a == old(self.apps[app_name])'),
                   ('Node.affinity_counters', 'lambda r: r == self or is_bucket(r)'),
                   ('Node.free_capacity', 'lambda r: is_bucket(r)')],
         props=['C01', 'C04'])

contract(M + ':Server.restore', types={'app': 'Application', 'placement_expiry': 'Opt[Real]', 'return': 'Bool'},
         requires=['inv_server(self)', 'inv_server_aff(self)', 'app.name not in self.apps', ('C04', 'tree_wf()')],
         ensures=['inv_server(self)', 'inv_server_aff(self)',
                  ('C04', 'implies(result, forall(lambda r, x: implies(r == self or anc(r, self), '
                          '  r.affinity_counters[x] == old(r.affinity_counters)[x] + '
                          '  (1 if x == app.affinity.name else 0)), "Node", "Name"))', 'chain_plus'),
                  ('C04', 'implies(not result, forall(lambda r: r.affinity_counters == old(r.affinity_counters), "Node"))',
                   'fail_same'),
                  ('C04', 'forall(lambda r: implies(not (r == self or anc(r, self)), '
                          '       r.affinity_counters == old(r.affinity_counters)), "Node")', 'others_same'),
                  'app.lease == old(app.lease)',
                  'result == old(fits_static(self, app))',
                  'implies(result, app.server == self.name and '
                  '   self.apps == dict_put(old(self.apps), app.name, app) and '
                  '   vec_eq(self.free_capacity, old(self.free_capacity) - app.demand))',
                  'implies(not result, self.apps == old(self.apps) and '
                  '   vec_eq(self.free_capacity, old(self.free_capacity)) and app.server == old(app.server) and '
                  '   self.affinity_counters == old(self.affinity_counters))',
                  'app.placement_expiry == (placement_expiry if placement_expiry is not None '
                  '                         else old(app.placement_expiry))',
                  'clock_now() >= old(clock_now())'],
         modifies=['clock', 'self.free_capacity', 'self.apps', 'app.server', 'app.placement_expiry', 'app.lease',
                   ('Node.affinity_counters', 'lambda r: r == self or is_bucket(r)'),
                   ('Node.free_capacity', 'lambda r: is_bucket(r)')],
         props=['C01', 'C03', 'C04', 'C07'])

contract(M + ':Server.renew', types={'app': 'Application', 'return': 'Bool'},
         ensures=['implies(not result, app.placement_expiry == old(app.placement_expiry))',
                  'implies(app.lease == 0, result)', 'clock_now() >= old(clock_now())',
                  # C03 lease clause for a renewal: granted only if the server is not due for reboot before the lease,
                  # counted from now, ends - and the lease granted is that one (not a longer one)
                  ('C03', 'implies(result and app.lease != 0, old(clock_now()) + app.lease < self.valid_until)',
                   'renew_checked'),
                  ('C03', 'implies(result, app.placement_expiry == clock_now() + app.lease)', 'lease_from_now')],
         modifies=['clock', 'app.placement_expiry'], props=['C01', 'C03'])

contract(M + ':Server.remove_all', types={},
         requires=['inv_server(self)', 'inv_server_aff(self)', ('C04', 'tree_wf()')],
         ensures=['inv_server(self)', 'inv_server_aff(self)',
                  'forall(lambda n: n not in self.apps, "Name")'],
         modifies=['self.free_capacity', 'self.apps',
                   ('Application.server', 'lambda a: True'), ('Application.evicted', 'lambda a: True'),
                   ('Application.unschedule', 'lambda a: True'), ('Application.placement_expiry', 'lambda a: True'),
                   ('Node.affinity_counters', 'lambda r: r == self or is_bucket(r)'),
                   ('Node.free_capacity', 'lambda r: is_bucket(r)')],
         props=['C01'])
invariant(M + ':Server.remove_all', 0, 'for appname in list(self.apps)',
          ['inv_server(self)', 'inv_server_aff(self)', ('C04', 'tree_wf()'),
           # keys not yet visited are still present, visited ones are gone, nothing else appeared
           'forall(lambda n: (n in self.apps) == (n in at_loop_entry(self.apps) and '
           '       not _pos(n) < _i), "Name")'])

contract(M + ':Server.set_state', types={'state': 'State', 'since': 'Real'},
         ensures=['self._state == state',
                  'self._state_since == (old(self._state_since) if old(self._state) == state else since)'],
         modifies=['self._state', 'self._state_since', ('Node.free_capacity', 'lambda r: is_bucket(r)')],
         props=['C01', 'C08'])


# ------------------------------------------------------------------ tree construction (labels / traits aggregates)
contract(M + ':Node.add_labels', types={'labels': 'Set[Opt[Name]]'},
         ensures=[# exact for a server (its own label set is not reachable from the recursive walk up the buckets)
                  'implies(cls_is(self, "Server"), forall(lambda l: (l in self.labels) == '
                  '        (l in old(self.labels) or l in labels), "Opt[Name]"))'],
         modifies=[('Node.labels', 'lambda r: r == self or is_bucket(r)')], props=['C02', 'C03'])

contract(M + ':TraitSet._recalculate', types={},
         ensures=['(self.traits & self.self_traits) == self.self_traits',
                  'forall(lambda c: implies(c in self.children_traits, '
                  '       (self.traits & self.children_traits[c]) == self.children_traits[c]), "Name")'],
         modifies=['self.traits'], props=['C02', 'C03'])
invariant(M + ':TraitSet._recalculate', 0, 'for trait in six.itervalues(self.children_traits)',
          ['(self.traits & self.self_traits) == self.self_traits',
           'forall(lambda c: implies(c in self.children_traits and _pos(c) < _i, '
           '       (self.traits & self.children_traits[c]) == self.children_traits[c]), "Name")'])

contract(M + ':Node.add_child_traits', types={'node': 'Node'},
         modifies=[('TraitSet.traits', 'lambda t: True'), ('TraitSet.children_traits', 'lambda t: True')],
         requires=['cls_is(self, "Bucket") or cls_is(self, "Cell")'],
         ensures=['(self.traits.traits & node.traits.traits) == node.traits.traits'],
         props=['C02'], assumed=True,
         note='recursive re-aggregation up the chain; frame only (TraitSet objects of other nodes may be '
              're-aggregated); InvAgg for traits is not yet proved')
contract(M + ':Node.adjust_valid_until', types={'child_valid_until': 'Opt[Real]'},
         modifies=[('Node.valid_until', 'lambda r: r == self or is_bucket(r)')], assumed=True,
         note='recursive max up the chain; frame only')

contract(M + ':Node.add_node', types={'node': 'Node'},
         requires=['cls_is(self, "Bucket") or cls_is(self, "Cell")', 'node.parent is None',
                   'node.name not in self.children_by_name', 'node != self',
                   ('C04', 'tree_wf()'), ('C04', 'not anc(node, self)')],
         ensures=['node.parent == self', 'node.name in self.children_by_name and self.children_by_name[node.name] == node',
                  'len(self.children) == old(len(self.children)) + 1 and self.children[len(self.children) - 1] == node',
                  # C03: adding a server to a bucket does not change the partition(s) the server belongs to
                  ('C02,C03', 'implies(cls_is(node, "Server"), node.labels == old(node.labels))'),
                  # C04: the counters of the attached subtree are added to self and to every ancestor, nothing else moves
                  ('C04', 'forall(lambda r, x: implies(r == self or anc(r, self), r.affinity_counters[x] == '
                          '       old(r.affinity_counters)[x] + old(node.affinity_counters)[x]), "Node", "Name")', 'attach_plus'),
                  ('C04', 'forall(lambda r: implies(not (r == self or anc(r, self)), '
                          '       r.affinity_counters == old(r.affinity_counters)), "Node")', 'others_same')],
         modifies=['node.parent', 'self.children', 'self.children_by_name',
                   ('Node.labels', 'lambda r: r == self or is_bucket(r)'),
                   ('Node.affinity_counters', 'lambda r: r == self or is_bucket(r)'),
                   ('Node.valid_until', 'lambda r: r == self or is_bucket(r)'),
                   ('TraitSet.traits', 'lambda t: True'), ('TraitSet.children_traits', 'lambda t: True')],
         props=['C02', 'C03', 'C04'])

contract(M + ':Node.remove_child_traits', types={'node_name': 'Name'},
         modifies=[('TraitSet.traits', 'lambda t: True'), ('TraitSet.children_traits', 'lambda t: True')],
         assumed=True, note='recursive re-aggregation up the chain; frame only')
contract(M + ':Node.remove_node', types={'node': 'Node', 'return': 'Node'},
         requires=['cls_is(self, "Bucket") or cls_is(self, "Cell")', 'node.name in self.children_by_name',
                   'node.parent == self', ('C04', 'tree_wf()')],
         ensures=['node.parent is None', 'node.name not in self.children_by_name', 'result == node',
                  # C04: the counters of the detached subtree are taken off self and every ancestor, nothing else moves
                  ('C04', 'forall(lambda r, x: implies(r == self or anc(r, self), r.affinity_counters[x] == '
                          '       old(r.affinity_counters)[x] - old(node.affinity_counters)[x]), "Node", "Name")', 'detach_minus'),
                  ('C04', 'forall(lambda r: implies(not (r == self or anc(r, self)), '
                          '       r.affinity_counters == old(r.affinity_counters)), "Node")', 'others_same')],
         modifies=['node.parent', 'self.children', 'self.children_by_name',
                   ('Node.affinity_counters', 'lambda r: r == self or is_bucket(r)'),
                   ('Node.valid_until', 'lambda r: r == self or is_bucket(r)'),
                   ('TraitSet.traits', 'lambda t: True'), ('TraitSet.children_traits', 'lambda t: True')],
         props=['C04'])
invariant(M + ':Node.remove_node', 0, 'for idx in six.moves.xrange(0, len(self.children))',
          ['len(self.children) == at_loop_entry(len(self.children))'])

RC_SUM = 'sum_range(lambda j, L, y: %s(L[j].affinity_counters)[y], %s, %s, x)'
contract(M + ':Node.reset_children', types={},
         requires=['cls_is(self, "Bucket") or cls_is(self, "Cell")', ('C04', 'tree_wf()')],
         ensures=['len(self.children) == 0',
                  ('C04', 'forall(lambda j: implies(0 <= j and j < old(len(self.children)) and '
                          '       old(self.children)[j] is not None, exists(lambda k: 0 <= k and k < len(K) and '
                          '       K[k] == old(self.children)[j], "Int")), "Int")', 'all_detached'),
                  ('C04', 'forall(lambda j: implies(0 <= j and j < len(K), K[j].parent is None), "Int")', 'detached'),
                  # C04: the counters of every detached subtree are taken off self and every ancestor
                  ('C04', 'forall(lambda r, x: implies(r == self or anc(r, self), r.affinity_counters[x] == '
                          '       old(r.affinity_counters)[x] - ' + RC_SUM % ('old', 'len(K)', 'K') + '), "Node", "Name")',
                   'detach_all_minus'),
                  ('C04', 'forall(lambda r: implies(not (r == self or anc(r, self)), '
                          '       r.affinity_counters == old(r.affinity_counters)), "Node")', 'others_same')],
         ghost_out={'K': ('List[Node]', '_seq0')},
         modifies=[('Node.parent', 'lambda r: r.parent == self'), 'self.children', 'self.children_by_name',
                   ('Node.affinity_counters', 'lambda r: r == self or is_bucket(r)')],
         props=['C04'])
invariant(M + ':Node.reset_children', 0, 'for child in self.children_iter()',
          [('C04', 'forall(lambda j: implies(0 <= j and j < _n, not (_seq[j] == self or anc(_seq[j], self))), "Int")'),
           ('C04', 'chain_wf(self)'),
           ('C04', 'forall(lambda j: implies(0 <= j and j < _i, _seq[j].parent is None), "Int")'),
           ('C04', 'forall(lambda r, x: implies(r == self or anc(r, self), r.affinity_counters[x] == '
                   '       at_loop_entry(r.affinity_counters)[x] - ' + RC_SUM % ('at_loop_entry', '_i', '_seq') + '), "Node", "Name")'),
           ('C04', 'forall(lambda r: implies(not (r == self or anc(r, self)), '
                   '       r.affinity_counters == at_loop_entry(r.affinity_counters)), "Node")')])

# the walk up the parent chain that guards the two placements that bypass the buckets (eviction, restore);
# pure: no clause for properties other than C04 (vocabulary in scheduler_c04)
contract(M + ':Node.check_app_affinity_limit_up', types={'app': 'Application', 'return': 'Bool'},
         requires=[('C04', 'chain_wf(self)')],
         ensures=[('C04', 'result == chain_room(self, app)', 'all_levels')], props=['C04'])
