"""C20 — the app monitor converges to the target count without overshoot.

Contract on treadmill/sproc/appmonitor.py:reevaluate (one evaluation).  The REST client is a
dependency: what the property says about the requests is stated as *call-site clauses* over the
caller's locals at the two `restclient.post` calls (the request strings themselves are formatted
from exactly those locals).
"""
from pyvc_api import *   # noqa

M = 'treadmill.sproc.appmonitor'

record('MonRec', {'count': 'Int', 'available': 'Real', 'last_update': 'Real', 'rate': 'Real',
                  'policy': 'Opt[Name]', 'has_policy': 'Bool'})
record('MonState', {'scheduled': 'Dict[Name,List[Name]]', 'monitors': 'Dict[Name,MonRec]',
                    'suspended': 'Dict[Name,Real]'})
cls('ZkClient', None, {})
opaque('treadmill.zknamespace.path')


@spec
def mon_valid(conf):
    """What _monitor_data_watch installs: available tokens within [0, 2*count], rate = 2*count per hour."""
    return (conf['count'] >= 0 and conf['rate'] * 3600 == 2 * conf['count'] and
            0 <= conf['available'] and conf['available'] <= 2 * conf['count'])


contract('treadmill.restclient:post',
         types={'return': 'Int'},
         raises={'NotFoundError': [], 'BadRequestError': [], 'ValidationError': [], 'Exception': []},
         assumed=True, modifies=['alloc'],
         note='REST call: returns, or raises one of the handled errors or any other exception; no effect on '
              'the monitor state')
contract('treadmill.zkutils:update', types={}, assumed=True, modifies=['alloc'],
         note='writes the suspended/waited map to ZooKeeper; no effect on the monitor state')

contract(M + ':reevaluate',
         types={'api_url': 'Str', 'alert_f': 'Callable', 'state': 'MonState', 'zkclient': 'ZkClient',
                'last_waited': 'Dict[Name,Real]', 'return': 'Dict[Name,Real]',
                'waited': 'Dict[Name,Real]', 'extra': 'List[Name]'},
         requires=['forall(lambda n: implies(n in state["monitors"], mon_valid(state["monitors"][n]) and '
                   '       state["monitors"][n]["last_update"] <= clock_now()), "Name")',
                   # records of different monitors are different objects
                   'forall(lambda n, m: implies(n in state["monitors"] and m in state["monitors"] and n != m, '
                   '       state["monitors"][n] != state["monitors"][m]), "Name", "Name")'],
         ensures=['forall(lambda n: implies(n in state["monitors"], 0 <= state["monitors"][n]["available"] and '
                  '       state["monitors"][n]["available"] <= 2 * state["monitors"][n]["count"]), "Name")'],
         modifies=['clock', 'alloc', ('MonRec.available', 'lambda r: True'), ('MonRec.last_update', 'lambda r: True')],
         props=['C20'])

invariant(M + ':reevaluate', 0, 'for name in extra', [])
# refill loop: every record stays valid; visited ones are refilled up to now
invariant(M + ':reevaluate', 1, 'for (name, conf) in six.iteritems(monitors)',
          ['monitors == state["monitors"]', 'now >= old(clock_now())',
           'forall(lambda n: implies(n in monitors, monitors[n]["count"] >= 0 and '
           '  monitors[n]["rate"] * 3600 == 2 * monitors[n]["count"] and 0 <= monitors[n]["available"] and '
           '  monitors[n]["available"] <= 2 * monitors[n]["count"] and monitors[n]["last_update"] <= now), "Name")',
           'forall(lambda n, m: implies(n in monitors and m in monitors and n != m, monitors[n] != monitors[m]), '
           '       "Name", "Name")'])
# action loop
invariant(M + ':reevaluate', 2, 'for (name, conf) in six.iteritems(monitors)',
          ['monitors == state["monitors"]',
           'forall(lambda n: implies(n in monitors, monitors[n]["count"] >= 0 and '
           '  monitors[n]["rate"] * 3600 == 2 * monitors[n]["count"] and 0 <= monitors[n]["available"] and '
           '  monitors[n]["available"] <= 2 * monitors[n]["count"]), "Name")',
           'forall(lambda n, m: implies(n in monitors and m in monitors and n != m, monitors[n] != monitors[m]), '
           '       "Name", "Name")'])

# the create request (first post): never more than what is missing, never more than the token budget
site(M + ':reevaluate', 'post', ordinal=0, asserts=[
    'name in monitors and not (suspended.get(name, 0) > now)',
    'count > current_count',
    '1 <= allowed and allowed <= count - current_count',
    'allowed <= conf["available"] and conf["available"] <= 2 * count',
])
# the delete request (second post): exactly the surplus, oldest first (fifo/default) or newest first (lifo)
site(M + ':reevaluate', 'post', ordinal=1, asserts=[
    'name in monitors and not (suspended.get(name, 0) > now)',
    'count < current_count and current_count == len(grouped[name])',
    'len(extra) == current_count - count',
    'implies(policy == "fifo", forall(lambda j: implies(0 <= j and j < len(extra), extra[j] == grouped[name][j]), "Int"))',
    'implies(policy == "lifo", forall(lambda j: implies(0 <= j and j < len(extra), '
    '        extra[j] == grouped[name][count + j]), "Int"))',
    'policy == "fifo" or policy == "lifo"',
])


# ---------------------------------------------------------------- the watch handler that installs a monitor record
# (closure of _run_sync / _watch_monitor: `state` and `name` are its free variables).  reevaluate *requires* mon_valid of
# every record; this is who establishes it.
record('LoadedMon', {'count': 'Int', 'policy': 'Opt[Name]', 'has_policy': 'Bool', 'has_count': 'Bool'})
cls('ZnodeStat', None, {})
cls('WatchedEvent', None, {'type': 'Name'})
contract('lib:yaml.load', types={'$params': ['data'], 'data': 'Any', 'return': 'LoadedMon'},
         ensures=['implies(result["has_count"], result["count"] >= 0)'],
         raises={'Exception': []}, assumed=True, modifies=['alloc'],
         note='the monitor payload: a mapping whose count (if present) is a non-negative integer (API schema: minimum 0)')

contract(M + ':_run_sync._monitor_data_watch',
         types={'data': 'Any', 'stat': 'Opt[ZnodeStat]', 'event': 'Opt[WatchedEvent]', '^state': 'MonState', '^name': 'Name',
                'loaded': 'LoadedMon', 'count': 'Int', 'policy': 'Opt[Name]'},
         requires=['forall(lambda n: implies(n in state["monitors"], mon_valid(state["monitors"][n]) and '
                   '       state["monitors"][n]["last_update"] <= clock_now()), "Name")'],
         ensures=[# every record in the monitor state is valid afterwards: in particular a reconfigured monitor starts with
                  # a bucket within [0, 2 * its new count]
                  ('C20', 'forall(lambda n: implies(n in state["monitors"], mon_valid(state["monitors"][n]) and '
                          '       state["monitors"][n]["last_update"] <= clock_now()), "Name")', 'installs_valid_record')],
         modifies=['clock', 'alloc', ('MonState.monitors', 'lambda r: True'), ('MonRec.available', 'lambda r: True'),
                   ('MonRec.last_update', 'lambda r: True'), ('MonRec.count', 'lambda r: True'),
                   ('MonRec.rate', 'lambda r: True'), ('MonRec.policy', 'lambda r: True'),
                   ('MonRec.has_policy', 'lambda r: True')],
         props=['C20'])
