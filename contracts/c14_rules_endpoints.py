"""C14 (part 2) — RuleMgr (firewall rule files) and EndpointsMgr (endpoint specs): one owner per entry,
an existing binding is never changed, only the owner releases, garbage collection reclaims exactly the
entries whose owner is gone.  File names come from _filenameify / _namify (injective: C15); here they are
functions of their arguments."""
from pyvc_api import *   # noqa
import c14_vipfile       # noqa  (same_except, fs_same, dangling)

R = 'treadmill.rulefile'
E = 'treadmill.endpoints'

cls('Rule', None, {})
cls('RuleMgr', R, {'_base_path': 'Name', '_owner_path': 'Name'})
cls('Watchdog', None, {})
contract('lib:Watchdog.heartbeat', types={'$params': ['self']}, assumed=True)
ufunc('rule_filename', ['Name', 'Rule'], 'Name')
contract(R + ':RuleMgr._filenameify', types={'chain': 'Name', 'rule': 'Rule', 'return': 'Name'},
         ensures=['result == rule_filename(chain, rule)'], assumed=True,
         note='file name of a rule: a function of (chain, rule); its injectivity is C15')


@spec
def bound_to(base, name, owner_dir, owner):
    return fs_kind(base, name) == 2 and fs_target(base, name) == path(owner_dir, owner)


contract(R + ':RuleMgr.create_rule', types={'chain': 'Name', 'rule': 'Rule', 'owner': 'Name'},
         requires=['fs_kind(self._base_path, rule_filename(chain, rule)) == 0 or '
                   'fs_kind(self._base_path, rule_filename(chain, rule)) == 2'],
         ensures=['implies(old(fs_kind(self._base_path, rule_filename(chain, rule))) == 0, '
                  '  bound_to(self._base_path, rule_filename(chain, rule), self._owner_path, owner) and '
                  '  same_except(self._base_path, rule_filename(chain, rule)))',
                  'implies(old(fs_kind(self._base_path, rule_filename(chain, rule))) != 0, fs_same() and '
                  '  old(fs_target(self._base_path, rule_filename(chain, rule)))[1] == owner)'],
         # an existing binding of another owner is never changed: the request fails
         raises={'OSError': ['fs_same()', 'old(fs_kind(self._base_path, rule_filename(chain, rule))) == 2',
                             'old(fs_target(self._base_path, rule_filename(chain, rule)))[1] != owner']},
         modifies=['fs'], props=['C14'])

contract(R + ':RuleMgr.unlink_rule', types={'chain': 'Name', 'rule': 'Rule', 'owner': 'Name'},
         requires=['fs_kind(self._base_path, rule_filename(chain, rule)) == 0 or '
                   'fs_kind(self._base_path, rule_filename(chain, rule)) == 2'],
         ensures=['implies(old(fs_kind(self._base_path, rule_filename(chain, rule))) == 2 and '
                  '        old(fs_target(self._base_path, rule_filename(chain, rule)))[1] == owner, '
                  '  fs_kind(self._base_path, rule_filename(chain, rule)) == 0 and '
                  '  same_except(self._base_path, rule_filename(chain, rule)))',
                  'implies(not (old(fs_kind(self._base_path, rule_filename(chain, rule))) == 2 and '
                  '             old(fs_target(self._base_path, rule_filename(chain, rule)))[1] == owner), fs_same())'],
         modifies=['fs'], props=['C14'])

contract(R + ':RuleMgr._list_rules', types={'return': 'List[Name]'}, inline=True)

contract(R + ':RuleMgr.garbage_collect',
         types={'watchdog_lease': 'Opt[Watchdog]', 'watchdog_heartbeat': 'Opt[Real]'},
         requires=['forall(lambda n: fs_kind(self._base_path, n) == 0 or fs_kind(self._base_path, n) == 2, "Name")',
                   'forall(lambda n: implies(fs_kind(self._base_path, n) == 2, '
                   '       fs_target(self._base_path, n)[0] == self._owner_path), "Name")',
                   'self._owner_path != self._base_path'],
         ensures=['forall(lambda n: implies(dangling(self._base_path, n), fs_kind(self._base_path, n) == 0), "Name")',
                  'forall(lambda n: implies(not dangling(self._base_path, n), '
                  '       fs_kind(self._base_path, n) == old(fs_kind(self._base_path, n))), "Name")',
                  'forall(lambda e, m: implies(e != self._base_path, fs_kind(e, m) == old(fs_kind(e, m))), "Int", "Int")',
                  'forall(lambda e, m: fs_target(e, m) == old(fs_target(e, m)), "Int", "Int")'],
         modifies=['fs', 'clock'], props=['C14'])
invariant(R + ':RuleMgr.garbage_collect', 0, 'for rule in self._list_rules()',
          ['forall(lambda n: implies(_pos(n) < _i and dangling(self._base_path, n), '
           '       fs_kind(self._base_path, n) == 0), "Name", pat=fs_kind(self._base_path, n))',
           'forall(lambda n: implies(not (_pos(n) < _i and dangling(self._base_path, n)), '
           '       fs_kind(self._base_path, n) == old(fs_kind(self._base_path, n))), "Name", '
           '       pat=fs_kind(self._base_path, n))',
           'forall(lambda e, m: implies(e != self._base_path, fs_kind(e, m) == old(fs_kind(e, m))), "Int", "Int")',
           'forall(lambda e, m: fs_target(e, m) == old(fs_target(e, m)), "Int", "Int")'])

# ------------------------------------------------------------------ endpoint specs
cls('EndpointsMgr', E, {'_base_path': 'Name'})
ufunc('spec_filename', ['Name', 'Name', 'Name', 'Name', 'Name', 'Name'], 'Name')
contract(E + ':_namify',
         types={'appname': 'Name', 'proto': 'Name', 'endpoint': 'Name', 'real_port': 'Name', 'pid': 'Name',
                'port': 'Name', 'return': 'Name'},
         ensures=['result == spec_filename(appname, proto, endpoint, real_port, pid, port)'], assumed=True,
         note='file name of an endpoint spec: a function of its six fields')


@spec
def spec_name(appname, proto, endpoint, real_port, pid, port):
    return spec_filename(appname, proto, endpoint, real_port, pid, port)


EP_TYPES = {'appname': 'Name', 'proto': 'Name', 'endpoint': 'Name', 'real_port': 'Name', 'pid': 'Name',
            'port': 'Name', 'owner': 'Opt[Path]'}
contract(E + ':EndpointsMgr.create_spec', types=EP_TYPES,
         requires=['owner is not None'],
         ensures=['implies(old(fs_kind(self._base_path, spec_name(appname, proto, endpoint, real_port, pid, port))) == 0, '
                  '  fs_kind(self._base_path, spec_name(appname, proto, endpoint, real_port, pid, port)) == 2 and '
                  '  fs_target(self._base_path, spec_name(appname, proto, endpoint, real_port, pid, port)) == owner and '
                  '  same_except(self._base_path, spec_name(appname, proto, endpoint, real_port, pid, port)))',
                  # an existing spec is never re-bound
                  'implies(old(fs_kind(self._base_path, spec_name(appname, proto, endpoint, real_port, pid, port))) != 0, '
                  '  fs_same())'],
         raises={'OSError': ['fs_same()']},
         modifies=['fs'], props=['C14'])
contract(E + ':EndpointsMgr.unlink_spec', types=EP_TYPES,
         requires=['owner is not None',
                   'fs_kind(self._base_path, spec_name(appname, proto, endpoint, real_port, pid, port)) == 0 or '
                   'fs_kind(self._base_path, spec_name(appname, proto, endpoint, real_port, pid, port)) == 2'],
         ensures=[# only the owner (compared by the container's unique name) releases the spec
                  'implies(old(fs_kind(self._base_path, spec_name(appname, proto, endpoint, real_port, pid, port))) == 2 and '
                  '        old(fs_target(self._base_path, spec_name(appname, proto, endpoint, real_port, pid, port)))[1] == owner[1], '
                  '  fs_kind(self._base_path, spec_name(appname, proto, endpoint, real_port, pid, port)) == 0 and '
                  '  same_except(self._base_path, spec_name(appname, proto, endpoint, real_port, pid, port)))',
                  'implies(not (old(fs_kind(self._base_path, spec_name(appname, proto, endpoint, real_port, pid, port))) == 2 and '
                  '        old(fs_target(self._base_path, spec_name(appname, proto, endpoint, real_port, pid, port)))[1] == owner[1]), '
                  '  fs_same())'],
         modifies=['fs'], props=['C14'])


# ------------------------------------------------------------------ unlink_all (what a finishing container calls)
ufunc('glob_match', ['Name', 'Name'], 'Bool')      # fnmatch(name, pattern): dependency, uninterpreted


@spec
def spec_unchanged(self, n):
    return (fs_kind(self._base_path, n) == old(fs_kind(self._base_path, n)) and
            fs_target(self._base_path, n) == old(fs_target(self._base_path, n)))


UA_SAFE = ('forall(lambda n: implies(owner is not None and not (old(fs_kind(self._base_path, n)) == 2 and '
           '       old(fs_target(self._base_path, n))[1] == owner), spec_unchanged(self, n)), "Name")')
UA_ELSE = 'forall(lambda e, m: implies(e != self._base_path, fs_kind(e, m) == old(fs_kind(e, m))), "Int", "Int")'
contract(E + ':EndpointsMgr.unlink_all',
         types={'appname': 'Name', 'proto': 'Opt[Name]', 'endpoint': 'Opt[Name]', 'owner': 'Opt[Name]',
                'filename': 'Name', 'pattern': 'Path'},
         requires=['forall(lambda n: fs_kind(self._base_path, n) == 0 or fs_kind(self._base_path, n) == 2, "Name")'],
         ensures=[# a spec bound to another owner is never released by this call (release only by the owner)
                  ('C14', UA_SAFE, 'foreign_specs_untouched'),
                  # whatever changed was removed, and matched the instance's pattern
                  ('C14', 'forall(lambda n: implies(not spec_unchanged(self, n), fs_kind(self._base_path, n) == 0), "Name")',
                   'only_removals'),
                  ('C14', UA_ELSE, 'frame')],
         modifies=['fs'], props=['C14'])
invariant(E + ':EndpointsMgr.unlink_all', 0, 'for filename in glob.glob(pattern)',
          [UA_SAFE, UA_ELSE,
           'forall(lambda n: implies(not spec_unchanged(self, n), fs_kind(self._base_path, n) == 0), "Name")',
           'forall(lambda n: fs_kind(self._base_path, n) == 0 or fs_kind(self._base_path, n) == 2, "Name")'])
