"""C12 - the node's manifest cache mirrors what is placed on the node.

Functions under contract: treadmill.eventmgr:EventMgr._cache and EventMgr._synchronize.

Ghost state: the file system model of pyvc/engine_fs.py (kind and content of every (directory, name) path) and
a read-only ZooKeeper store given by uninterpreted functions zk_has(path) / zk_data(path) / zk_ctime(path).
Dependency contracts (assumed, listed in the evidence): zkutils.get / get_with_metadata read that store and raise
NoNodeError exactly on absent nodes; glob.glob(dir/*) lists the non-hidden names present; fs.write_safe installs,
atomically, the bytes its callback writes (tempfile in the same directory + rename) or changes nothing.
"""
from pyvc_api import *   # noqa

M = 'treadmill.eventmgr'

# manifests and placement payloads are JSON objects; values are opaque atoms
MAN = 'Dict[Name,Name]'
cls('AppEnvironment', 'treadmill.appenv', {'cache_dir': 'Name'})
cls('EventMgr', M, {'tm_env': 'AppEnvironment', '_hostname': 'Name'})
cls('ZnodeStat', None, {'ctime': 'Real'})
cls('KazooClient', None, {})
cls('OsStat', None, {'st_ctime': 'Real'})                  # what os.stat returns (engine_fs)
cls('WriteStream', None, {'content': 'Int'})               # the temporary file handed to write_safe's callback

ufunc('zk_has', ['Str'], 'Bool')
ufunc('zk_ctime', ['Str'], 'Real')
ufunc('fs_hidden', ['Name'], 'Bool')          # the name starts with a dot (glob's * does not match it)
ghostvar('ZK_DATA', 'Dict[Str,Opt[%s]]' % MAN)  # payload of every node (None: empty node)

opaque('treadmill.zknamespace.path')

contract('treadmill.zkutils:get_with_metadata',
         types={'zkclient': 'KazooClient', 'path': 'Str', 'return': 'Tuple[Opt[%s],ZnodeStat]' % MAN},
         ensures=['zk_has(path)', 'result[0] == ZK_DATA[path]', 'result[1].ctime == zk_ctime(path)'],
         raises={'NoNodeError': 'not zk_has(path)'}, modifies=['alloc'], assumed=True,
         note='reads the (unchanging) ZooKeeper store; NoNodeError exactly when the node is absent')
contract('treadmill.zkutils:get',
         types={'zkclient': 'KazooClient', 'path': 'Str', 'return': 'Opt[%s]' % MAN},
         ensures=['zk_has(path)', 'result == ZK_DATA[path]'],
         raises={'NoNodeError': 'not zk_has(path)'}, assumed=True,
         note='reads the (unchanging) ZooKeeper store; NoNodeError exactly when the node is absent')


# the callback of write_safe: yaml.dump(obj, stream=f) makes the stream hold the serialisation of obj
contract('treadmill.yamlwrapper:dump', types={'return': 'Int'},
         ensures=['kwargs["stream"].content == yaml_of(args[0])'], modifies=['kwargs["stream"].content'], assumed=True,
         note='serialisation is a function of the object (dependency contract)')


@spec
def placement_node(self, app):
    return zk_path('placement', self._hostname, app)


@spec
def cache_path(self, app):
    return path(self.tm_env.cache_dir, app)


@spec
def merged(self, app):
    """The manifest stored for the instance, with the task id and the placement data laid over it."""
    return dict_update_opt(dict_put(ZK_DATA[zk_path('scheduled', app)], 'task', app[app.index('#') + 1:]),
                           ZK_DATA[placement_node(self, app)])


@spec
def up_to_date(self, app):
    """An existing cache file that is not older than the placement node."""
    return fs_kind(cache_path(self, app)) != 0 and fs_ctime(cache_path(self, app)) != 0 and \
        fs_ctime(cache_path(self, app)) >= zk_ctime(placement_node(self, app)) / 1000.0


@spec
def writes(self, app, check_existing):
    """_cache(app) writes the file: placement node and manifest exist and the file is not known to be current."""
    return (zk_has(placement_node(self, app)) and zk_has(zk_path('scheduled', app)) and
            ZK_DATA[zk_path('scheduled', app)] is not None and
            not (check_existing and up_to_date(self, app)))


@spec
def others_same(self, app):
    return forall(lambda d, n: implies(not (d == self.tm_env.cache_dir and n == app),
                                       fs_kind(d, n) == old(fs_kind(d, n)) and
                                       fs_content(d, n) == old(fs_content(d, n)) and
                                       fs_ctime(d, n) == old(fs_ctime(d, n))), 'Int', 'Int')


@spec
def fs_same():
    return forall(lambda d, n: fs_kind(d, n) == old(fs_kind(d, n)) and fs_content(d, n) == old(fs_content(d, n)),
                  'Int', 'Int')


contract(M + ':EventMgr._cache',
         types={'zkclient': 'KazooClient', 'app': 'Name', 'check_existing': 'Bool',
                'manifest': 'Opt[%s]' % MAN, 'placement_data': 'Opt[%s]' % MAN},
         requires=['fs_kind(cache_path(self, app)) == 0 or fs_kind(cache_path(self, app)) == 1'],
         # an empty /scheduled node is not a manifest: the real code fails on it (None['task'] = ...) before
         # touching the cache
         raises={'TypeError': ['old(zk_has(placement_node(self, app)) and zk_has(zk_path("scheduled", app)) and '
                               '    ZK_DATA[zk_path("scheduled", app)] is None)', 'fs_same()']},
         ensures=[# written: a complete regular file holding the merged manifest
                  'implies(old(writes(self, app, check_existing)), fs_kind(cache_path(self, app)) == 1 and '
                  '        fs_content(cache_path(self, app)) == yaml_of(old(merged(self, app))))',
                  # not written: nothing changes under the instance's name
                  'implies(not old(writes(self, app, check_existing)), '
                  '        fs_kind(cache_path(self, app)) == old(fs_kind(cache_path(self, app))) and '
                  '        fs_content(cache_path(self, app)) == old(fs_content(cache_path(self, app))) and '
                  '        fs_ctime(cache_path(self, app)) == old(fs_ctime(cache_path(self, app))))',
                  'others_same(self, app)'],
         modifies=['fs', 'alloc'], props=['C12'])


@spec
def in_list(L, x):
    return exists(lambda j: 0 <= j and j < len(L) and L[j] == x, 'Int')


@spec
def zk_ok(self, app):
    """Placement node and a manifest exist for the instance."""
    return (zk_has(placement_node(self, app)) and zk_has(zk_path("scheduled", app)) and
            ZK_DATA[zk_path("scheduled", app)] is not None)


@spec
def sync_writes(self, app, check_existing):
    """The synchronisation writes the cache file of a placed instance: it has a placement node and a manifest, and
    its file is missing or (when existing entries are checked) older than the placement."""
    return zk_ok(self, app) and (fs_kind(cache_path(self, app)) == 0 or
                                 (check_existing and not up_to_date(self, app)))


@spec
def cdir(self):
    return self.tm_env.cache_dir


@spec
def kept(self, n):
    """Kind and content of <cache>/n are what they were when the synchronisation started."""
    return (fs_kind(cdir(self), n) == old(fs_kind(cdir(self), n)) and
            fs_content(cdir(self), n) == old(fs_content(cdir(self), n)) and
            fs_ctime(cdir(self), n) == old(fs_ctime(cdir(self), n)))


@spec
def written(self, n):
    return fs_kind(cdir(self), n) == 1 and fs_content(cdir(self), n) == yaml_of(old(merged(self, n)))


@spec
def outside_same(self):
    return forall(lambda d, n: implies(d != cdir(self), fs_kind(d, n) == old(fs_kind(d, n)) and
                                       fs_content(d, n) == old(fs_content(d, n))), 'Int', 'Int')


@spec
def sets_ok(self, expected, expected_set, current_set, extra, missing, existing):
    """What the five sets of _synchronize are, in terms of the state at entry."""
    return (forall(lambda n: (n in expected_set) == in_list(expected, n), 'Name') and
            forall(lambda n: (n in current_set) == (old(fs_kind(cdir(self), n)) != 0 and not fs_hidden(n)), 'Name') and
            forall(lambda n: (n in extra) == (n in current_set and n not in expected_set), 'Name') and
            forall(lambda n: (n in missing) == (n in expected_set and n not in current_set), 'Name') and
            forall(lambda n: (n in existing) == (n in expected_set and n in current_set), 'Name'))


SETS = 'sets_ok(self, expected, expected_set, current_set, extra, missing, existing)'
TYPES = {'zkclient': 'KazooClient', 'expected': 'List[Name]', 'check_existing': 'Bool',
         'expected_set': 'Set[Name]', 'current_set': 'Set[Name]', 'extra': 'Set[Name]',
         'missing': 'Set[Name]', 'existing': 'Set[Name]'}

contract(M + ':EventMgr._synchronize', types=TYPES,
         requires=[# the cache directory holds regular files (cache entries, the ready marker, temporaries)
                   'forall(lambda n: fs_kind(cdir(self), n) == 0 or fs_kind(cdir(self), n) == 1, "Int")',
                   # instance names are not hidden names
                   'forall(lambda j: implies(0 <= j and j < len(expected), not fs_hidden(expected[j])), "Int")'],
         # an empty /scheduled node of an instance to be cached makes the real code fail (see _cache)
         raises={'TypeError': ['old(exists(lambda j: 0 <= j and j < len(expected) and '
                               '    zk_has(placement_node(self, expected[j])) and zk_has(zk_path("scheduled", expected[j])) and '
                               '    ZK_DATA[zk_path("scheduled", expected[j])] is None, "Int"))']},
         ensures=[# the cache names no instance that is not placed on this node
                  ('C12', 'forall(lambda n: implies(fs_kind(cdir(self), n) != 0 and not fs_hidden(n), '
                          '       in_list(expected, n)), "Name")', 'no_extra'),
                  # every placed instance whose placement node and manifest exist has a cache file
                  ('C12', 'forall(lambda j: implies(0 <= j and j < len(expected) and old(zk_ok(self, expected[j])), '
                          '       fs_kind(cache_path(self, expected[j])) == 1), "Int")', 'all_cached'),
                  # every file written by the synchronisation holds the merged manifest ...
                  ('C12', 'forall(lambda j: implies(0 <= j and j < len(expected) and '
                          '       old(sync_writes(self, expected[j], check_existing)), written(self, expected[j])), "Int")',
                   'written_complete'),
                  # ... and every other file that is still there is untouched
                  ('C12', 'forall(lambda n: implies(fs_kind(cdir(self), n) != 0 and '
                          '       not (in_list(expected, n) and old(sync_writes(self, n, check_existing))), kept(self, n)), '
                          '       "Name")', 'others_untouched'),
                  # nothing outside the cache directory changes
                  ('C12', 'outside_same(self)', 'frame')],
         modifies=['fs', 'alloc'], props=['C12'])
invariant(M + ':EventMgr._synchronize', 0, 'for app in extra',
          [SETS, 'outside_same(self)',
           'forall(lambda n: implies(n in extra and _pos(n) < _i, fs_kind(cdir(self), n) == 0), "Name")',
           'forall(lambda n: implies(not (n in extra and _pos(n) < _i), kept(self, n)), "Name")'])
AFTER0 = ('forall(lambda n: implies(n in extra, fs_kind(cdir(self), n) == 0), "Name")',)
invariant(M + ':EventMgr._synchronize', 1, 'for app in missing',
          [SETS, 'outside_same(self)',
           'forall(lambda n: implies(n in extra, fs_kind(cdir(self), n) == 0), "Name")',
           'forall(lambda n: implies(n in missing and _pos(n) < _i and old(zk_ok(self, n)), written(self, n)), "Name")',
           'forall(lambda n: implies(not (n in extra) and not (n in missing and _pos(n) < _i and old(zk_ok(self, n))), '
           '       kept(self, n)), "Name")'])
invariant(M + ':EventMgr._synchronize', 2, 'for app in existing',
          [SETS, 'outside_same(self)', 'check_existing',
           'forall(lambda n: implies(n in extra, fs_kind(cdir(self), n) == 0), "Name")',
           'forall(lambda n: implies(n in missing and old(zk_ok(self, n)), written(self, n)), "Name")',
           'forall(lambda n: implies(n in existing and _pos(n) < _i and old(sync_writes(self, n, True)), '
           '       written(self, n)), "Name")',
           'forall(lambda n: implies(not (n in extra) and not (n in missing and old(zk_ok(self, n))) and '
           '       not (n in existing and _pos(n) < _i and old(sync_writes(self, n, True))), kept(self, n)), "Name")'])
