"""C11 - a restarted master reloads exactly the placement that was published (Loader.restore_placement, per server).

Function under contract: treadmill.scheduler.loader:Loader.restore_placement (called for every server by
Loader.restore_placements at start-up, and by Loader.reload_server at run time).

Ghost state: the store of c09_master (zk_exists / zk_content per path) plus zk_ctime(path) (creation time, read only) and
the decoding of a placement payload: tok_expires(payload) (0 if absent), tok_identity(payload) / tok_identity_none(payload).
Server.remove_all / restore / put are the PROVED contracts of scheduler_core (./check C01, C03): in particular
Server.restore succeeds exactly when the instance still fits the server statically (fits_static: partition label, traits,
affinity room, capacity) and then sets the expiry it was given.
"""
from pyvc_api import *   # noqa
import c09_master        # noqa  (Backend dependency contracts, paths, pl(), scheduler_core schemas)

L = 'treadmill.scheduler.loader:Loader'
S = 'treadmill.scheduler'

cls('Loader', 'treadmill.scheduler.loader', {'cell': 'Cell', 'servers': 'Dict[Name,Server]', 'backend': 'Backend'})
cls('NodeMeta', None, {'ctime': 'Real'})
cls('PlacementRec', None, {'expires': 'Real', 'identity': 'Opt[Int]'}, record=True)

ufunc('zk_ctime', ['Str'], 'Real')
ufunc('tok_expires', ['Any'], 'Real')
ufunc('tok_identity', ['Any'], 'Int')
ufunc('tok_identity_none', ['Any'], 'Bool')

contract('lib:Backend.get_with_metadata',
         types={'$params': ['self', 'path'], 'path': 'Str', 'return': 'Tuple[PlacementRec,NodeMeta]'},
         raises={'ObjectNotFoundError': ['not zk_exists(path)', 'all_same()']},
         ensures=['zk_exists(path)', 'result[1].ctime == zk_ctime(path)',
                  'result[0]["expires"] == tok_expires(zk_content(path))',
                  '(result[0]["identity"] is None) == tok_identity_none(zk_content(path))',
                  'implies(result[0]["identity"] is not None, result[0]["identity"] == tok_identity(zk_content(path)))',
                  'all_same()'],
         modifies=['alloc'], assumed=True,
         note='reads a node: payload decoded to a dict (expires: 0 if absent, identity: None if absent) and the stat '
              '(creation time in ms); ObjectNotFoundError exactly when the node is absent')


@spec
def verbatim_time(s, a):
    """The server is present and was not restarted since the instance was placed: its presence node is not newer than
    the placement entry."""
    return (zk_exists(cp('/server.presence', str_of(s))) and zk_ctime(cp('/server.presence', str_of(s))) != 0 and
            zk_ctime(cp('/server.presence', str_of(s))) / 1000.0 <= zk_ctime(pl(s, a)) / 1000.0)


contract(L + '.remove_app', types={'appname': 'Name'},
         ensures=['forall(lambda a: (a in self.cell.apps) == (old(a in self.cell.apps) and a != appname), "Name")',
                  'forall(lambda a: implies(a in self.cell.apps, self.cell.apps[a] == old(self.cell.apps[a]) and '
                  '       self.cell.apps[a].server == old(self.cell.apps[a].server) and '
                  '       self.cell.apps[a].identity == old(self.cell.apps[a].identity) and '
                  '       self.cell.apps[a].placement_expiry == old(self.cell.apps[a].placement_expiry) and '
                  '       self.cell.apps[a].allocation == old(self.cell.apps[a].allocation) and '
                  '       self.cell.apps[a].identity_group_ref == old(self.cell.apps[a].identity_group_ref)), "Name")',
                  'forall(lambda r: implies(appname not in old(r.apps), r.apps == old(r.apps) and '
                  '       vec_eq(r.free_capacity, old(r.free_capacity)) and '
                  '       r.affinity_counters == old(r.affinity_counters)), "Server")',
                  'all_same()'],
         modifies=[('Cell.apps', 'lambda c: True'), ('Application.server', 'lambda a: True'),
                   ('Application.identity', 'lambda a: True'), ('Application.evicted', 'lambda a: True'),
                   ('Application.allocation', 'lambda a: True'), ('Server.apps', 'lambda s: True'),
                   ('Node.free_capacity', 'lambda s: True'), ('Node.affinity_counters', 'lambda s: True'),
                   ('IdentityGroup.available', 'lambda g: True'), ('Allocation.apps', 'lambda a: True')],
         assumed=True,
         note='Loader.remove_app = Cell.remove_app (summary: the instance leaves the cell, nobody else changes); on a Master '
              'the override also deletes the placement entry and writes the finished record (under contract in ./check C09)')

RP_MODIFIES = ['zk', 'alloc', 'clock',
               ('Server.apps', 'lambda s: True'), ('Node.free_capacity', 'lambda s: True'),
               ('Node.affinity_counters', 'lambda s: True'),
               ('Application.server', 'lambda a: True'), ('Application.placement_expiry', 'lambda a: True'),
               ('Application.lease', 'lambda a: True'), ('Application.evicted', 'lambda a: True'),
               ('Application.unschedule', 'lambda a: True'), ('Application.identity', 'lambda a: True'),
               ('Application.allocation', 'lambda a: True'), ('Cell.apps', 'lambda c: True'),
               ('IdentityGroup.available', 'lambda g: True'), ('Allocation.apps', 'lambda a: True')]

contract(L + '.restore_placement',
         types={'servername': 'Name', 'restore_identity': 'Bool', 'return': 'Tuple[List[Name],List[Name]]',
                'placed_apps': 'List[Name]', 'restored_apps': 'List[Name]', 'presence_time': 'Opt[Real]',
                'placement_time': 'Real', 'expires': 'Real', 'identity': 'Opt[Int]', 'restored': 'Bool',
                'appnode': 'Str', 'presence_node': 'Str'},
         requires=['servername in self.servers', 'self.servers[servername].name == servername',
                   'inv_server(self.servers[servername])', 'inv_server_aff(self.servers[servername])',
                   'forall(lambda n: implies(n in self.cell.apps, self.cell.apps[n].name == n and '
                   '       self.cell.apps[n].allocation is not None), "Name")',
                   # an identity is recorded only for an instance of an identity group (force_set_identity asserts it)
                   'forall(lambda n: implies(n in self.cell.apps and zk_exists(pl(servername, n)) and '
                   '       not tok_identity_none(zk_content(pl(servername, n))), '
                   '       self.cell.apps[n].identity_group_ref is not None), "Name")'],
         ensures=[# C01's per-server invariant survives the reload (capacity accounting, server -> instance view)
                  'inv_server(self.servers[servername])', 'inv_server_aff(self.servers[servername])',
                  # places nothing that is not recorded
                  ('C11', 'forall(lambda a: implies(a in self.cell.apps and self.cell.apps[a].server == servername and '
                          '       a in self.servers[servername].apps, old(zk_exists(pl(servername, a)))), "Name")',
                   'places_only_recorded'),
                  # a recorded instance is on the server afterwards, or its entry is gone (never "pending but recorded")
                  ('C09,C10,C11', 'forall(lambda a: implies(zk_exists(pl(servername, a)), a in self.cell.apps and '
                              '       a in self.servers[servername].apps and self.cell.apps[a].server == servername), "Name")',
                   'restored_or_dropped'),
                  # restored verbatim from a healthy server: the recorded expiry and identity
                  ('C11', 'forall(lambda a: implies(a in self.cell.apps and a in self.servers[servername].apps and '
                          '       old(verbatim_time(servername, a)), '
                          '       self.cell.apps[a].placement_expiry == tok_expires(old(zk_content(pl(servername, a))))), "Name")',
                   'recorded_expiry'),
                  ('C11', 'forall(lambda a: implies(a in self.cell.apps and a in self.servers[servername].apps and '
                          '       restore_identity and not tok_identity_none(old(zk_content(pl(servername, a)))), '
                          '       self.cell.apps[a].identity == tok_identity(old(zk_content(pl(servername, a))))), "Name")',
                   'recorded_identity'),
                  # nothing is created, no surviving entry is rewritten, other servers' entries are not touched
                  ('C09,C10,C11', 'forall(lambda s, a: implies(zk_exists(pl(s, a)), old(zk_exists(pl(s, a))) and '
                              '       zk_content(pl(s, a)) == old(zk_content(pl(s, a)))), "Name", "Name")', 'no_entry_created'),
                  ('C09,C10,C11', 'forall(lambda s, a: implies(s != servername, entry_same(s, a)), "Name", "Name")',
                   'other_servers_untouched')],
         raises={},
         modifies=RP_MODIFIES, props=['C09', 'C11'])


@spec
def processed(P, n, a):
    return exists(lambda j: 0 <= j and j < n and P[j] == a, 'Int')


invariant(L + '.restore_placement', 0, 'for appname in placed_apps',
          ['servername in self.servers and self.servers[servername] == server and server.name == servername',
           'inv_server(server)', 'inv_server_aff(server)',
           'forall(lambda n: implies(n in self.cell.apps, self.cell.apps[n].name == n and '
           '       self.cell.apps[n].allocation is not None), "Name")',
           'forall(lambda n: implies(n in self.cell.apps and old(zk_exists(pl(servername, n))) and '
           '       not tok_identity_none(old(zk_content(pl(servername, n)))), '
           '       self.cell.apps[n].identity_group_ref is not None), "Name")',
           'forall(lambda n: (n in placed_apps) == old(zk_exists(pl(servername, n))), "Name")',
           'forall(lambda n: processed(placed_apps, len(placed_apps), n) == old(zk_exists(pl(servername, n))), "Name")',
           'forall(lambda i, j: implies(0 <= i and i < j and j < len(placed_apps), placed_apps[i] != placed_apps[j]), "Int", "Int")',
           'presence_node == cp("/server.presence", str_of(servername))',
           '(presence_time is None) == (not old(zk_exists(presence_node)))',
           'implies(presence_time is not None, presence_time == zk_ctime(presence_node) / 1000.0)',
           # the server holds only processed, recorded instances of the cell
           ('C09,C10,C11', 'forall(lambda a: implies(a in server.apps, processed(placed_apps, _i, a) and a in self.cell.apps and '
                       '       self.cell.apps[a] == server.apps[a]), "Name")'),
           ('C09,C10,C11', 'forall(lambda a: implies(processed(placed_apps, _i, a) and zk_exists(pl(servername, a)), '
                       '       a in server.apps), "Name")'),
           ('C09,C10,C11', 'forall(lambda a: implies(not processed(placed_apps, _i, a), entry_same(servername, a)), "Name")'),
           ('C09,C10,C11', 'forall(lambda s, a: implies(zk_exists(pl(s, a)), old(zk_exists(pl(s, a))) and '
                       '       zk_content(pl(s, a)) == old(zk_content(pl(s, a)))), "Name", "Name")'),
           ('C09,C10,C11', 'forall(lambda s, a: implies(s != servername, entry_same(s, a)), "Name", "Name")'),
           ('C11', 'forall(lambda a: implies(a in server.apps and old(verbatim_time(servername, a)), '
                   '       server.apps[a].placement_expiry == tok_expires(old(zk_content(pl(servername, a))))), "Name")'),
           ('C11', 'forall(lambda a: implies(a in server.apps and restore_identity and '
                   '       not tok_identity_none(old(zk_content(pl(servername, a)))), '
                   '       server.apps[a].identity == tok_identity(old(zk_content(pl(servername, a))))), "Name")')])
