#!/bin/sh
# usage: seedtest.sh <PID> <worktree> <seed dir>  -- applies the seeded patch in the scratch worktree, runs the check against it, reverts
PID=$1; WT=$2; SD=$3
git -C $WT checkout -q -- . && git -C $WT apply $SD/patch.diff || exit 9
VERIF_EVIDENCE_DIR=/tmp/seed_evidence VERIF_REPO=$WT /verif/check $PID 2>&1 | grep -E "VIOLATION|KNOWN|^$PID:|CHECKER" | cut -c1-260
git -C $WT checkout -q -- .
