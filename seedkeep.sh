#!/bin/sh
# usage: seedkeep.sh <PID> <worktree> <i> "<test files>"   -- re-verify a seeded change in its scratch worktree and keep it under /verif/seeded
PID=$1; WT=$2; I=$3; TESTS=$4
SD=$WT/seeded/$I
cd $WT && git checkout -q -- . || exit 9
PYTHONPATH=$WT/lib/python /venv/bin/python $SD/demo.py >/dev/null 2>&1; CLEAN=$?
git apply $SD/patch.diff || exit 9
PYTHONPATH=$WT/lib/python /venv/bin/python $SD/demo.py >/dev/null 2>&1; PATCHED=$?
T=$(/venv/bin/python -m pytest -q -p no:cacheprovider $TESTS 2>&1 | tail -1)
git checkout -q -- .
echo "$PID seed $I: demo clean=$CLEAN patched=$PATCHED tests: $T"
if [ "$CLEAN" = "0" ] && [ "$PATCHED" = "1" ]; then
  D=/verif/seeded/${PID}_$I; mkdir -p $D; cp $SD/patch.diff $SD/demo.py $D/
  python3 - "$SD/meta.json" "$D/meta.json" "$T" <<'PY'
import json,sys
m=json.load(open(sys.argv[1]))
m['verified_by_me']={'demo_exit_on_clean_tree':0,'demo_exit_with_patch':1,'existing_tests_with_patch':sys.argv[3]}
json.dump(m,open(sys.argv[2],'w'),indent=1)
PY
fi
